#!/usr/bin/env python3
"""Make the instrumented copy of rsass that the harness crates build.

    tools/instrument.py [--repo /repo] [--out /verif/harness/shadow]

/repo/rsass/src is copied to <out>/src with purely mechanical rewrites that put
every source of nondeterminism rsass could touch behind a seam owned by the
simulator, whether the source tree uses it today or a later change adds it:

    std::sync::...        -> rsass_verif_sync::...          (Mutex, RwLock, Once, OnceLock, LazyLock, atomics, Condvar, mpsc)
    std::thread::...      -> rsass_verif_sync::thread::...
    thread_local!         -> rsass_verif_sync::thread_local!
    std::time::...        -> rsass_verif_sync::time::...    (Instant, SystemTime: simulated clock)
    std::fs::...          -> rsass_verif_fs::...            (File::open / read: simulated file system with fault injection)
    .is_file() .is_dir() .exists()  (under input/)  -> PathExt methods of rsass_verif_fs

Without a simulator attached all of these pass straight through to std, so the
instrumented build behaves like the shipped one.  <out>/Cargo.toml is generated
from /repo/rsass/Cargo.toml (same package name, version, edition, dependencies
and features) plus the two shim crates; /repo itself is never written to.
Files are only rewritten when their content changes, so cargo's incremental
builds keep working.  Prints a one-line summary of what was rewritten.
"""
import os
import re
import sys

def arg(name, default):
    if name in sys.argv:
        return sys.argv[sys.argv.index(name) + 1]
    return default

REPO = arg("--repo", os.environ.get("VERIF_REPO", "/repo"))
HERE = os.path.dirname(os.path.dirname(os.path.abspath(__file__)))
OUT = arg("--out", os.path.join(HERE, "harness", "shadow"))
SRC = os.path.join(REPO, "rsass", "src")

RULES = [
    (re.compile(r"\bstd::sync::"), "rsass_verif_sync::", "sync"),
    (re.compile(r"\bstd::thread::"), "rsass_verif_sync::thread::", "thread"),
    (re.compile(r"\bstd::thread_local!"), "rsass_verif_sync::thread_local!", "thread_local"),
    (re.compile(r"(?<![:\w])thread_local!"), "rsass_verif_sync::thread_local!", "thread_local"),
    (re.compile(r"\bstd::time::"), "rsass_verif_sync::time::", "time"),
    (re.compile(r"\bstd::fs::"), "rsass_verif_fs::", "fs"),
    (re.compile(r"\buse std::fs;"), "use rsass_verif_fs as fs;", "fs"),
    (re.compile(r"\buse std::sync;"), "use rsass_verif_sync as sync;", "sync"),
    (re.compile(r"\buse std::time;"), "use rsass_verif_sync::time as time;", "time"),
    (re.compile(r"\buse std::thread;"), "use rsass_verif_sync::thread as thread;", "thread"),
]
# `use std::{fs, sync::Mutex, ...}` style groups: expand the members we care about
GROUP = re.compile(r"((?:pub(?:\([^)]*\))?\s+)?)use std::\{((?:[^{}]|\{[^{}]*\})*)\};", re.S)
PATH_METHODS = [
    (re.compile(r"\.is_file\(\)"), ".verif_is_file()"),
    (re.compile(r"\.is_dir\(\)"), ".verif_is_dir()"),
    (re.compile(r"\.exists\(\)"), ".verif_exists()"),
    (re.compile(r"\.metadata\(\)"), ".verif_metadata()"),
]
counts = {}

def split_top(s):
    out, depth, cur = [], 0, ""
    for ch in s:
        if ch == "{":
            depth += 1
        elif ch == "}":
            depth -= 1
        if ch == "," and depth == 0:
            out.append(cur)
            cur = ""
        else:
            cur += ch
    if cur.strip():
        out.append(cur)
    return [x.strip() for x in out if x.strip()]

def expand_group(m):
    members = split_top(m.group(2))
    return " ".join("%suse std::%s;" % (m.group(1), x) for x in members)

def rewrite(rel, text):
    text = GROUP.sub(expand_group, text)
    for rx, rep, tag in RULES:
        text, n = rx.subn(rep, text)
        if n:
            counts[tag] = counts.get(tag, 0) + n
    if rel.startswith("input" + os.sep) or rel.startswith("input/"):
        hit = 0
        for rx, rep in PATH_METHODS:
            text, n = rx.subn(rep, text)
            hit += n
        if hit:
            counts["path_methods"] = counts.get("path_methods", 0) + hit
            # after the leading inner attributes / module docs
            lines = text.split("\n")
            i = 0
            while i < len(lines) and (lines[i].startswith("//!") or lines[i].startswith("#![") or not lines[i].strip()):
                i += 1
            lines.insert(i, "#[allow(unused_imports)]\nuse rsass_verif_fs::PathExt as _;")
            text = "\n".join(lines)
    return text

def write_if_changed(path, data):
    try:
        with open(path, "rb") as f:
            if f.read() == data:
                return False
    except OSError:
        pass
    os.makedirs(os.path.dirname(path), exist_ok=True)
    with open(path, "wb") as f:
        f.write(data)
    return True

def sections(text):
    """[(header or None, [lines])] of a Cargo.toml"""
    out = [(None, [])]
    for line in text.split("\n"):
        if line.startswith("[") and line.rstrip().endswith("]"):
            out.append((line.strip(), []))
        else:
            out[-1][1].append(line)
    return out

def manifest():
    text = open(os.path.join(REPO, "rsass", "Cargo.toml")).read()
    keep = []
    pkg = {}
    for head, lines in sections(text):
        if head == "[package]":
            for l in lines:
                m = re.match(r'\s*(name|version|edition)\s*=\s*"([^"]*)"', l)
                if m:
                    pkg[m.group(1)] = m.group(2)
        elif head and (head == "[dependencies]" or head.startswith("[dependencies.") or head == "[features]"
                       or head.startswith("[target.") and "dev-dependencies" not in head and "dependencies" in head):
            body = "\n".join(lines).rstrip()
            # path dependencies are relative to /repo/rsass
            body = re.sub(r'path\s*=\s*"(?!/)([^"]*)"',
                          lambda m: 'path = "%s"' % os.path.normpath(os.path.join(REPO, "rsass", m.group(1))), body)
            keep.append(head + "\n" + body + "\n")
    shim = os.path.join(HERE, "harness")
    out = [
        "# GENERATED by tools/instrument.py from %s/rsass/Cargo.toml - do not edit.\n" % REPO,
        "# Builds the instrumented copy of rsass' sources (src/, also generated) without touching /repo.\n",
        "[package]\nname = \"%s\"\nversion = \"%s\"\nedition = \"%s\"\n\n[lib]\npath = \"src/lib.rs\"\n"
        % (pkg.get("name", "rsass"), pkg.get("version", "0.0.0"), pkg.get("edition", "2021")),
    ]
    deps_seen = False
    for k in keep:
        if k.startswith("[dependencies]"):
            deps_seen = True
            k = k.rstrip() + "\nrsass_verif_sync = { path = \"%s/shim\" }\nrsass_verif_fs = { path = \"%s/fsshim\" }\n" % (shim, shim)
        out.append("\n" + k)
    if not deps_seen:
        out.append("\n[dependencies]\nrsass_verif_sync = { path = \"%s/shim\" }\nrsass_verif_fs = { path = \"%s/fsshim\" }\n" % (shim, shim))
    out.append("\n[lints.rust]\nunexpected_cfgs = { level = \"allow\", check-cfg = ['cfg(kaj_rsass_verif)'] }\n")
    return "".join(out)

def main():
    if not os.path.isdir(SRC):
        print("instrument: %s not found" % SRC, file=sys.stderr)
        return 2
    wanted = set()
    changed = 0
    for root, _dirs, files in os.walk(SRC):
        for fn in files:
            p = os.path.join(root, fn)
            rel = os.path.relpath(p, SRC)
            wanted.add(rel)
            data = open(p, "rb").read()
            if fn.endswith(".rs"):
                data = rewrite(rel, data.decode("utf-8")).encode("utf-8")
            if write_if_changed(os.path.join(OUT, "src", rel), data):
                changed += 1
    # remove files that no longer exist in the repository
    for root, _dirs, files in os.walk(os.path.join(OUT, "src")):
        for fn in files:
            p = os.path.join(root, fn)
            if os.path.relpath(p, os.path.join(OUT, "src")) not in wanted:
                os.remove(p)
                changed += 1
    if write_if_changed(os.path.join(OUT, "Cargo.toml"), manifest().encode("utf-8")):
        changed += 1
    print("# instrument: %d files (%d updated); rewrites: %s"
          % (len(wanted), changed, " ".join("%s=%d" % kv for kv in sorted(counts.items())) or "none"))
    return 0

if __name__ == "__main__":
    sys.exit(main())
