#!/bin/bash
# usage: ROUND=3 tools/triage_round.sh verify|check <ID> [variants...]
# verify: archive + confirm each variant of <ID> in its scratch worktree /tmp/wt-<ID> (can run for several IDs in parallel)
# check : run the quick check(s) against each archived variant (apply to /repo, run, revert) - one at a time, /repo is shared
set -u
PHASE="$1"; ID="$2"; shift; shift
VARS="${*:-A B C}"
R="${ROUND:-}"
VH="$(cd "$(dirname "$0")/.." && pwd)"
LOGSUFFIX="${LOGSUFFIX:-}"
for V in $VARS; do
  SRC=/tmp/wt-$ID/out/$V; DST=$VH/seeded/$ID-$V$R
  if [ "$PHASE" = verify ]; then
    [ -f "$SRC/patch.diff" ] || { echo "$ID-$V: no patch"; continue; }
    mkdir -p "$DST"
    cp "$SRC/patch.diff" "$DST/"; cp "$SRC"/demo.* "$DST/" 2>/dev/null; cp "$SRC/notes.md" "$DST/agent-notes.md" 2>/dev/null
    "$VH/tools/verify_seeded.sh" "$ID" "$V" > "$DST/verify.log" 2>&1
    echo "$ID-$V$R verify: $(tail -1 "$DST/verify.log")"
  else
    [ -f "$DST/patch.diff" ] || continue
    CHECKS="${CHECKS:-$ID}"
    RES=""
    for C in $CHECKS; do
      "$VH/tools/mutant.sh" "$DST/patch.diff" "$C" > "$DST/check-$C$LOGSUFFIX.log" 2>&1
      RC=$(grep -o "check rc=[0-9]*" "$DST/check-$C$LOGSUFFIX.log" | tail -1 | cut -d= -f2)
      ORACLES=$(grep -o "^# $C oracle=[a-z_A-Z0-9]*" "$DST/check-$C$LOGSUFFIX.log" | sort | uniq -c | awk '{print $4"x"$1}' | tr '\n' ' ')
      echo "$ID-$V$R check $C rc=$RC $ORACLES"
      RES="$RES{\"check\":\"$C\",\"exit\":${RC:-2},\"oracles\":\"$ORACLES\"},"
    done
    VR=1; grep -q "^CONFIRMED" "$DST/verify.log" && VR=0
    python3 - "$DST" "$ID" "$V" "$VR" "[${RES%,}]" <<'PY'
import json,sys,os
dst,pid,v,vr,res=sys.argv[1:6]
meta_p=os.path.join(dst,'meta.json')
meta=json.load(open(meta_p)) if os.path.exists(meta_p) else {}
meta.update({"property":pid,"variant":v,"source":"independent sub-agent that saw only the property text and a scratch worktree",
 "confirmed_by_me": vr=="0",
 "confirmation":"tools/verify_seeded.sh: demo passes on the clean tree; patch applies and compiles; full existing suite passes with the change (>= 6796 passed, 0 failed); demo fails with the change",
 "checks_run": json.loads(res)})
json.dump(meta,open(meta_p,'w'),indent=1)
PY
  fi
done
