#!/bin/bash
# instrument + build both harness crates (dev profile); use this instead of a bare `cargo build`
cd "$(dirname "$0")/.."
python3 tools/instrument.py || exit 2
for c in worlda worldb; do (cd harness/$c && CARGO_NET_OFFLINE=true cargo build --offline 2>&1 | grep -E "^(error|warning: unused)|-->|Finished" -A6 | head -40); done
