#!/bin/bash
# usage (background sweep): vp run --with-repo -- bash tools/thorough_all.sh [ids...]
# Runs the thorough tier of the named checks one after another on the repository snapshot.
[ -n "${VP_RUN_REPO:-}" ] && export VERIF_REPO="$VP_RUN_REPO"
IDS="${*:-C02 C03 C04 C39 C40 C06 C05}"
for id in $IDS; do
  s=$(date +%s)
  out=$(./check $id thorough 2>&1); rc=$?
  echo "THOROUGH $id rc=$rc wall=$(( $(date +%s) - s ))s"
  echo "$out" | grep -E "^DONE|^MERGED|VIOLATION|KNOWN|HARNESS|^# class|truncated" | cut -c1-300
done
echo THOROUGH-ALL-DONE
