#!/bin/bash
# usage: tools/seeds.sh <first> <last> [ids...]   — run the quick checks under several VERIF_SEEDs; any non-zero exit is reported
# (in a background sweep: vp run --with-repo -- bash tools/seeds.sh 2 12   uses the repository snapshot)
cd "$(dirname "$0")/.."
[ -n "${VP_RUN_REPO:-}" ] && export VERIF_REPO="$VP_RUN_REPO"
A=$1; B=$2; shift; shift
IDS="${*:-C02 C03 C04 C39 C05 C06 C40}"
bad=0
for s in $(seq $A $B); do
  for id in $IDS; do
    out=$(VERIF_SEED=$s ./check $id quick 2>&1); rc=$?
    line=$(echo "$out" | grep -E "^DONE|^MERGED" | tail -1)
    echo "seed=$s $id rc=$rc $line"
    if [ $rc -ne 0 ]; then bad=1; echo "$out" | grep -E "VIOLATION|HARNESS|^# " | head -10; fi
  done
done
exit $bad
