#!/bin/bash
# usage: tools/mutant.sh <patch.diff (absolute path)> <ID> [extra check args...]
# Applies the patch to the repository under test (VERIF_REPO, default /repo), runs ./check <ID> quick
# from the /verif tree this script belongs to, and always reverts.
set -u
P="$1"; ID="$2"; shift; shift
VH="$(cd "$(dirname "$0")/.." && pwd)"
export VERIF_REPO="${VERIF_REPO:-/repo}"
cd "$VERIF_REPO" || exit 2
if [ -n "$(git status --porcelain --untracked-files=no)" ]; then echo "repo dirty"; exit 2; fi
git apply "$P" || { echo "patch does not apply"; exit 2; }
trap 'git -C "$VERIF_REPO" checkout -- . ; git -C "$VERIF_REPO" clean -fdq -- rsass rsass-cli 2>/dev/null' EXIT
cd "$VH" && ./check "$ID" quick "$@" | cut -c1-400 | grep -v "^# class" | tail -12
echo "check rc=${PIPESTATUS[0]}"
