#!/bin/bash
# usage: tools/mutant.sh <patch.diff> <ID> [extra check args...]
# Applies the patch to /repo, runs ./check <ID> quick, and always reverts.
set -u
P="$1"; ID="$2"; shift; shift
cd /repo || exit 2
if [ -n "$(git status --porcelain --untracked-files=no)" ]; then echo "repo dirty"; exit 2; fi
git apply "$P" || { echo "patch does not apply"; exit 2; }
trap 'git -C /repo checkout -- . ; git -C /repo clean -fdq -- rsass rsass-cli 2>/dev/null' EXIT
cd /verif && ./check "$ID" quick "$@" | cut -c1-400 | grep -v "^# class" | tail -12
echo "check rc=${PIPESTATUS[0]}"
