#!/bin/bash
# usage: tools/verify_seeded.sh <ID> <variant>      (works in the scratch worktree /tmp/wt-<ID>)
# Confirms an independently written change: demo passes on the clean tree,
# the change compiles, the full existing suite passes with it, the demo fails with it.
set -u
ID="$1"; V="$2"; WT=/tmp/wt-$ID; SRC=$WT/out/$V
export CARGO_NET_OFFLINE=true
cd "$WT" || exit 2
git checkout -q -- . ; rm -f rsass/tests/verif_demo.rs
demo() {
  if [ -f "$SRC/demo.sh" ]; then
    cargo build -q -p rsass-cli --offline 2>&1 | tail -3
    bash "$SRC/demo.sh" "$WT/target/debug/rsass" >/tmp/demo-$ID-$V.out 2>&1; local rc=$?
  else
    cp "$SRC/demo.rs" rsass/tests/verif_demo.rs
    cargo test -q -p rsass --test verif_demo --offline >/tmp/demo-$ID-$V.out 2>&1; local rc=$?
    rm -f rsass/tests/verif_demo.rs
  fi
  tail -5 /tmp/demo-$ID-$V.out | sed 's/^/    /'
  return $rc
}
echo "== $ID/$V: demo on the clean tree (must pass)"
demo; R1=$?
echo "   rc=$R1"
echo "== apply patch"
git apply "$SRC/patch.diff" || { echo "PATCH DOES NOT APPLY"; exit 1; }
git diff --stat | tail -3
echo "== full test suite with the change (must pass)"
cargo test --workspace --no-fail-fast --offline 2>&1 | grep -E "^test result|^test .* FAILED$|^error(\[|:)|could not compile" > /tmp/suite-$ID-$V.out
grep -v "^test result: ok" /tmp/suite-$ID-$V.out | head -5
PASSED=$(awk '/^test result: ok/ {s+=$4} END {print s}' /tmp/suite-$ID-$V.out)
BAD=$(grep -vc "^test result: ok" /tmp/suite-$ID-$V.out)
echo "   passed=$PASSED notok_lines=$BAD"
echo "== demo with the change (must fail)"
demo; R2=$?
echo "   rc=$R2"
git checkout -q -- . ; rm -f rsass/tests/verif_demo.rs
if [ $R1 -eq 0 ] && [ $R2 -ne 0 ] && [ "$BAD" -eq 0 ] && [ "${PASSED:-0}" -ge 6796 ]; then echo "CONFIRMED $ID/$V passed=$PASSED"; exit 0; else echo "NOT CONFIRMED $ID/$V (clean demo rc=$R1, changed demo rc=$R2, suite passed=$PASSED bad=$BAD)"; exit 1; fi
