#!/usr/bin/env python3
"""Regenerate /verif/MANIFEST.json from the table below and validate it."""
import json, os, sys
V = os.path.dirname(os.path.dirname(os.path.abspath(__file__)))

NA = {
 "C01": "total function of the input bytes; no schedule, fault or history in the statement (panics caused by injected loader faults or interleavings are covered under C39/C05/C02)",
 "C07": "predicate on the output bytes of a single compilation; pure function of one input",
 "C08": "relation between two independent pure compilations of the same source",
 "C09": "print/parse round trip of one text; pure",
 "C10": "pure function number x precision -> text",
 "C11": "pure arithmetic on two numbers",
 "C12": "algebraic law on two values; pure",
 "C13": "pure map functions against a map model",
 "C14": "pure evaluation of logical operators",
 "C15": "pure parse-and-evaluate of an expression",
 "C16": "scoping semantics of one program; no schedule, fault or history",
 "C17": "control-flow semantics of one program; pure",
 "C18": "argument-binding semantics of one program; pure",
 "C19": "pure selector nesting",
 "C20": "pure tree transformation of one program",
 "C21": "evaluation-vs-output relation of one program, reached by input alone",
 "C22": "pure selector filtering",
 "C23": "algebraic law on selectors; pure",
 "C24": "algebraic laws on selector functions; pure",
 "C25": "selector print/parse round trip; pure",
 "C26": "pure string functions",
 "C27": "string escape/unescape bijection; pure",
 "C28": "pure list functions",
 "C29": "pure math functions",
 "C30": "pure calc simplification",
 "C31": "pure colour conversions",
 "C32": "pure colour function laws",
 "C33": "pure colour printing",
 "C34": "two call forms of the same pure function",
 "C35": "metamorphic relation between two sources compiled independently; pure",
 "C36": "comment preservation in one program; pure",
 "C37": "visibility/configuration semantics of a module graph: the file system only supplies text, no aliasing, ordering, fault or history is involved (the built-in-module clause is exercised as the attack workload of C05)",
 "C38": "equality of three pure entry points on the same input",
}

CHECKS = json.load(open(os.path.join(V, "tools", "checks.json")))

def main():
    checks = []
    for c in CHECKS:
        pid = c["property_id"]
        checks.append({
            "property_id": pid,
            "quick_cmd": f"./check {pid} quick",
            "thorough_cmd": f"./check {pid} thorough",
            "evidence_file": f"/verif/evidence/{pid}.json",
            "replay_cmd_template": f"./check {pid} --replay {{path}}",
            "engine": c["engine"],
            "level_claimed": {"category": c["category"], "text": c["text"], "design_ref": c["design_ref"]},
            "level_note": c["level_note"],
            "technique": c["technique"],
        })
    claimed = {c["property_id"] for c in CHECKS}
    pending = json.load(open(os.path.join(V, "tools", "pending.json")))
    na = [{"property_id": k, "reason": v} for k, v in sorted(NA.items())]
    for k, v in sorted(pending.items()):
        if k not in claimed:
            na.append({"property_id": k, "reason": v})
    na.sort(key=lambda e: e["property_id"])
    m = {
        "version": 1,
        "setup_cmd": "./setup.sh",
        "hooks": json.load(open(os.path.join(V, "tools", "hooks.json"))),
        "engines": json.load(open(os.path.join(V, "tools", "engines.json"))),
        "checks": checks,
        "not_applicable": na,
        "notes": "Deterministic simulation with fault injection; see DESIGN.md. VERIF_SEED (default 1) decides every run; violations are minimised, written to /verif/replays/ and replayed in a fresh process before being reported; known findings are listed in /verif/known_findings.json.",
    }
    props = [json.loads(l)["id"] for l in open(os.path.join(V, "properties.jsonl"))]
    covered = claimed | {e["property_id"] for e in na}
    assert set(props) == covered, (set(props) ^ covered)
    assert not (claimed & {e["property_id"] for e in na})
    json.dump(m, open(os.path.join(V, "MANIFEST.json"), "w"), indent=1)
    try:
        import jsonschema
        jsonschema.validate(m, json.load(open("/root/.vp/MANIFEST.schema.json")))
        print("MANIFEST.json valid;", len(checks), "checks,", len(na), "not applicable")
    except ImportError:
        print("written (jsonschema not available to validate)")

main()
