#!/bin/bash
# usage: tools/triage_seeded.sh <ID> <variant> [check ids to run, default <ID>]
# Confirms the change (tools/verify_seeded.sh), archives it under /verif/seeded/<ID>-<variant>/,
# runs the named quick checks against it (apply to /repo, run, revert) and records the outcome.
set -u
ID="$1"; V="$2"; shift; shift
CHECKS="${*:-$ID}"
SRC=/tmp/wt-$ID/out/$V; DST=/verif/seeded/$ID-$V${ROUND:-}
mkdir -p "$DST"
cp "$SRC/patch.diff" "$DST/"; cp "$SRC"/demo.* "$DST/" 2>/dev/null; cp "$SRC/notes.md" "$DST/agent-notes.md" 2>/dev/null
/verif/tools/verify_seeded.sh "$ID" "$V" > "$DST/verify.log" 2>&1; VR=$?
tail -1 "$DST/verify.log"
RES=""
for C in $CHECKS; do
  /verif/tools/mutant.sh "$DST/patch.diff" "$C" > "$DST/check-$C.log" 2>&1
  RC=$(grep -o "check rc=[0-9]*" "$DST/check-$C.log" | tail -1 | cut -d= -f2)
  ORACLES=$(grep -o "^# $C oracle=[a-z_A-Z0-9]*" "$DST/check-$C.log" | sort | uniq -c | awk '{print $4"x"$1}' | tr '\n' ' ')
  echo "  check $C rc=$RC $ORACLES"
  RES="$RES{\"check\":\"$C\",\"exit\":${RC:-2},\"oracles\":\"$ORACLES\"},"
done
python3 - "$DST" "$ID" "$V" "$VR" "[${RES%,}]" <<'PY'
import json,sys,os
dst,pid,v,vr,res=sys.argv[1:6]
meta_p=os.path.join(dst,'meta.json')
meta=json.load(open(meta_p)) if os.path.exists(meta_p) else {}
meta.update({"property":pid,"variant":v,"source":"independent sub-agent that saw only the property text and a scratch worktree",
 "confirmed_by_me": vr=="0",
 "confirmation":"tools/verify_seeded.sh: demo passes on the clean tree; patch applies and compiles; full existing suite passes with the change (>= 6796 passed, 0 failed); demo fails with the change",
 "checks_run": json.loads(res)})
json.dump(meta,open(meta_p,'w'),indent=1)
PY
