#!/bin/bash
# round 7 against the checks AS COMMITTED (before any strengthening for round 7), on a snapshot of /repo
export VERIF_REPO="$VP_RUN_REPO"
echo "repo snapshot: $VERIF_REPO"; git -C "$VERIF_REPO" log --oneline | head -1
for id in C02 C03 C04 C39 C40 C06 C05; do
  ROUND=7 LOGSUFFIX=.asstood tools/triage_round.sh check $id A B
done
echo ASSTOOD-DONE
