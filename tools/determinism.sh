#!/bin/bash
# usage: tools/determinism.sh [runs-per-property]
# Proves replay determinism on a sample: every property's first N runs are
# executed twice, in separate supervisor processes with different worker
# counts (so runs land in different worker processes in a different order),
# and the per-run digests (event histories, results, interleavings) are diffed.
set -u
cd "$(dirname "$0")/.."
export VERIF_DIR="$PWD"
N="${1:-2000}"
OUT="$PWD/.scratch/determinism"; rm -rf "$OUT"; mkdir -p "$OUT"
A=target/a/debug/worlda; B=target/b/debug/worldb
rc=0
run() { # bin id part runs workers tag
  local extra=""; [ -n "$3" ] && extra="--part $3"
  VERIF_RUNLOG="$OUT/$2-$3-$6.log" VERIF_DIR="$OUT/vd-$6" "$1" check "$2" $extra --runs "$4" --workers "$5" >/dev/null 2>&1
}
mkdir -p "$OUT/vd-a/corpus" "$OUT/vd-b/corpus"
for t in a b; do cp known_findings.json "$OUT/vd-$t/"; ln -sf "$PWD/corpus/spec_cases.jsonl" "$OUT/vd-$t/corpus/spec_cases.jsonl"; mkdir -p "$OUT/vd-$t/target"; ln -sfn "$PWD/target/cli" "$OUT/vd-$t/target/cli"; done
check() { # bin id part runs
  run "$1" "$2" "$3" "$4" 16 a
  run "$1" "$2" "$3" "$4" 5 b
  local la="$OUT/$2-$3-a.log" lb="$OUT/$2-$3-b.log"
  local n; n=$(wc -l < "$la" 2>/dev/null || echo 0)
  if [ "$n" -lt "$4" ]; then echo "DETERMINISM $2 $3: only $n of $4 runs logged"; rc=2; return; fi
  if cmp -s "$la" "$lb"; then echo "DETERMINISM $2 ${3:-all}: $n runs identical across two processes sets (16 vs 5 workers)"
  else echo "DETERMINISM $2 ${3:-all}: DIFFERENT"; diff "$la" "$lb" | head -5; rc=1; fi
}
check $A C02 "" "$N"
check $A C03 "" "$N"
check $A C04 "" "$N"
check $A C39 "" $((N/20))
check $B C05 sched $((N/4))
check $B C06 sched $((N/2))
check $A C05 hist $((N/20))
check $A C06 threads $((N/10))
check $A C40 "" $((N/10))
rm -rf "$OUT"
exit $rc
