//! Workload pool for C05/C06: probe programs that print a digest of the
//! built-in state, state-attack programs that try to write to it, ordinary
//! programs, crashing programs, and the extracted sass-spec corpus.

use crate::{Digest, Json, Rng};
use serde::{Deserialize, Serialize};
use std::collections::BTreeMap;
use std::sync::OnceLock;

#[derive(Clone, Copy, Debug, PartialEq, Eq, Serialize, Deserialize)]
pub struct Fmt {
    pub compressed: bool,
    pub precision: usize,
}

/// One compilation: a root source plus the files its loader can see.
#[derive(Clone, Debug, PartialEq, Serialize, Deserialize)]
pub struct Item {
    /// short label for reports
    pub name: String,
    pub input: String,
    /// mock files, keyed as in the spec corpus (resolved against `cwd`)
    pub files: BTreeMap<String, String>,
    pub cwd: String,
    pub fmt: Fmt,
    /// calls random()/unique-id(): runs as a predecessor but is not compared
    pub nondet: bool,
    /// (process histories) compile through `FsLoader::for_cwd()` after a `chdir` into a real directory
    /// that holds the files: the working directory is process state that changes between compilations
    #[serde(default)]
    pub via_cwd: bool,
}

impl Item {
    pub fn simple(name: &str, input: &str) -> Item {
        Item {
            name: name.into(),
            input: input.into(),
            files: BTreeMap::new(),
            cwd: String::new(),
            fmt: Fmt { compressed: false, precision: 10 },
            nondet: input.contains("random(") || input.contains("unique-id") || input.contains("unique_id"),
            via_cwd: false,
        }
    }
    pub fn digest(&self) -> u64 {
        let mut d = Digest::new();
        d.str(&self.input).str(&self.cwd).u64(u64::from(self.fmt.compressed)).u64(self.fmt.precision as u64).u64(u64::from(self.via_cwd));
        for (k, v) in &self.files {
            d.str(k).str(v);
        }
        d.finish()
    }
}

const MODS: [&str; 7] = ["math", "map", "string", "list", "color", "selector", "meta"];

/// Prints what every compilation should always see of the built-in modules.
pub fn probe_program(variant: u64) -> String {
    let mut s = String::new();
    for m in MODS {
        s.push_str(&format!("@use \"sass:{m}\";\n"));
    }
    s.push_str("p {\n");
    for m in MODS {
        if variant % 2 == 0 || m == "math" {
            s.push_str(&format!("  vars-{m}: meta.inspect(meta.module-variables(\"{m}\"));\n"));
            s.push_str(&format!("  fns-{m}: meta.inspect(map.keys(meta.module-functions(\"{m}\")));\n"));
        }
    }
    s.push_str("  pi: math.$pi;\n  e: math.$e;\n  gfloor: floor(1.5);\n  mfloor: math.floor(2.5);\n");
    s.push_str("  q: string.quote(a);\n  len: list.length(1 2 3);\n  red: color.red(#123456);\n");
    s.push_str("  sel: selector.append(\".a\", \".b\");\n  get: map.get((a: 1), a);\n  ty: meta.type-of(1px);\n");
    s.push_str("  gif: if(true, 1, 2);\n  gmix: mix(red, blue);\n  gpct: percentage(0.5);\n");
    s.push_str("  fe: meta.function-exists(\"floor\");\n  gfe: meta.global-variable-exists(\"pi\");\n");
    s.push_str("  div: math.div(1, 3);\n");
    // one call of every function an attacking library could try to replace
    s.push_str("  m1: math.ceil(1.5); m2: math.round(1.4); m3: meta.inspect(map.keys((a: 1))); m4: meta.inspect(map.values((a: 1)));\n");
    s.push_str("  m5: string.length(\"abc\"); m6: list.separator(1 2); m7: color.green(#123456);\n");
    s.push_str("  m8: meta.inspect(selector.parse(\".a\")); m9: meta.inspect(selector.simple-selectors(\".a.b\")); m10: meta.inspect(1 2);\n");
    s.push_str("}\n");
    s
}

/// Programs that name a built-in module or could write shared state.  Most of
/// them are expected to fail with an error; what matters is that they give the
/// same result everywhere and leave no trace.
pub fn attack_programs() -> Vec<(&'static str, &'static str)> {
    vec![
        ("assign-builtin-var", "@use \"sass:math\";\nmath.$pi: 3;\na { b: math.$pi; }\n"),
        ("assign-builtin-var-default", "@use \"sass:math\";\nmath.$pi: 3 !default;\na { b: math.$pi; }\n"),
        ("assign-builtin-new-var", "@use \"sass:math\";\nmath.$leak: 3;\na { b: math.$leak; }\n"),
        ("star-global-assign", "@use \"sass:math\" as *;\n$pi: 3 !global;\na { b: $pi; c: floor($pi); }\n"),
        ("star-assign", "@use \"sass:math\" as *;\n$pi: 3;\n$e: 2;\na { b: $pi + $e; }\n"),
        ("use-with-builtin", "@use \"sass:math\" with ($pi: 3);\na { b: math.$pi; }\n"),
        ("forward-with-builtin", "@forward \"sass:math\" with ($e: 1);\na { b: c; }\n"),
        ("forward-builtin-prefix", "@forward \"sass:math\" as m-*;\n@use \"sass:math\";\na { b: math.floor(1.5); }\n"),
        ("forward-builtin-hide", "@forward \"sass:math\" hide floor, $pi;\na { b: floor(2.5); }\n"),
        ("forward-builtin-show", "@forward \"sass:string\" show quote;\na { b: quote(x); }\n"),
        ("shadow-floor", "@function floor($x) { @return 42; }\na { b: floor(1.5); }\n"),
        ("shadow-if", "@function if($a, $b, $c) { @return shadowed; }\na { b: if(true, 1, 2); }\n"),
        ("shadow-mix-percentage", "@function mix($a, $b) { @return m; }\n@function percentage($x) { @return p; }\na { b: mix(red, blue); c: percentage(0.5); }\n"),
        ("shadow-loadcss-mixin", "@use \"sass:meta\";\n@mixin load-css($u) { x { y: z; } }\n@include load-css(\"q\");\n"),
        ("loadcss-builtin-with", "@use \"sass:meta\";\n@include meta.load-css(\"sass:math\", $with: (pi: 3));\na { b: c; }\n"),
        ("loadcss-builtin", "@use \"sass:meta\";\n@include meta.load-css(\"sass:math\");\na { b: c; }\n"),
        ("global-pi", "$pi: 3 !global;\n@use \"sass:math\";\na { b: math.$pi; c: $pi; }\n"),
        ("define-in-ns-fn", "@use \"sass:math\";\n@function math.floor($x) { @return 1; }\na { b: math.floor(2.5); }\n"),
        ("content-block", "@mixin m { x { @content; } }\n@include m { y: z; }\n@include m { w: v; }\n"),
        ("content-args", "@mixin m { @content(1); }\n@include m using ($a) { x { y: $a; } }\n"),
        ("each-restore", "$k: outer;\n@each $k in a b c { x { y: $k; } }\nz { k: $k; }\n"),
        ("map-merge-builtin-fns", "@use \"sass:meta\";\n@use \"sass:map\";\n$f: meta.module-functions(\"map\");\n$g: map.merge($f, (\"get\": null));\na { b: meta.inspect(map.keys($g)); }\n"),
        ("call-get-function", "@use \"sass:meta\";\n@use \"sass:math\";\n$f: meta.get-function(\"floor\", $module: \"math\");\na { b: meta.call($f, 3.7); c: call(get-function(\"floor\"), 2.2); }\n"),
        ("deprecated-color-fns", "a { b: adjust-hue(red, 10); c: lighten(red, 10%); d: saturate(red, 10%); e: opacify(rgba(red, 0.5), 0.1); f: call(\"floor\", 1.5); }\n"),
        ("deprecated-hsl", "a { b: hsl(10, 20, 30); c: lightness(red); d: hue(red); }\n"),
        ("selector-fns", "@use \"sass:selector\";\na { b: selector.nest(\".a\", \"&:hover\"); c: selector.unify(\".a\", \".b\"); }\n"),
        ("error-rule", "@use \"sass:math\";\n@error \"boom \" + math.$pi;\n"),
        ("undefined-var", "a { b: $nope; }\n"),
        ("parse-error", "a { b: ; c }}\n"),
        ("use-after-rule", "a { b: c; }\n@use \"sass:math\";\n"),
        ("keyframes", "@keyframes k { from { a: b; } to { a: c; } }\n"),
        ("at-root-media", "@media screen { a { @at-root { b { c: d; } } } }\n"),
        ("nested-props", "a { font: { family: x; size: 1px; } }\n"),
        ("placeholder", "%p { a: b; }\nc { d: e; }\n"),
        ("numbers", "@use \"sass:math\";\na { b: math.div(10, 3); c: 1e3; d: 0.1 + 0.2; e: math.pow(2, 0.5); f: math.$epsilon; }\n"),
        ("colors", "@use \"sass:color\";\na { b: color.adjust(#6b717f, $red: 15); c: color.scale(#6b717f, $lightness: 10%); d: color.mix(red, blue, 30%); }\n"),
        ("strings", "@use \"sass:string\";\na { b: string.to-upper-case(\"abc\"); c: string.slice(\"hello\", 2, -2); d: string.index(\"abc\", \"c\"); }\n"),
        ("lists-maps", "@use \"sass:list\";\n@use \"sass:map\";\n$m: (a: 1, b: (c: 2));\na { b: list.nth(1 2 3, 2); c: map.get($m, b, c); d: list.join(1 2, 3 4, comma); e: meta-free; }\n"),
        ("unicode", "a { b: \"\u{e5}\u{e4}\u{f6}\"; c: \u{2603}; }\n"),
        // definers / users of the same ordinary names: a definition must never outlive its compilation
        ("define-helper-fn", "@function helper($x) { @return defined-helper; }\n@function my-fn($x) { @return defined-my-fn; }\na { b: helper(1); c: my-fn(2); }\n"),
        ("use-helper-fn-undefined", "a { b: helper(1); c: my-fn(2); }\n"),
        ("define-helper-mixin", "@mixin helper-mixin { x: defined-mixin; }\na { @include helper-mixin; }\n"),
        ("use-helper-mixin-undefined", "a { @include helper-mixin; }\n"),
        ("define-shared-var", "$shared: defined-shared !global;\na { b: $shared; }\n"),
        ("use-shared-var-undefined", "a { b: $shared; }\n"),
        ("define-placeholder", "%shared-ph { x: y; }\na { b: c; }\n"),
        ("global-default-var", "$shared: 1 !default;\na { b: $shared; }\n"),
        // collections with several entries: anything kept in a hash map / set would show its iteration order here
        ("compound-units", "@use \"sass:math\";\n@use \"sass:meta\";\n$a: 1px * 1s * 1em;\n$b: 2s * 3em * 4px;\n$c: math.div(1px * 1s, 1em * 1deg);\na { u1: meta.inspect($a); u2: meta.inspect($c); cmp: math.compatible($a, $b); eq: $a * 24 == $b; lt: $a < $b; sum: meta.inspect($a + $b); mx: meta.inspect(math.max($a, $b)); mn: meta.inspect(math.min($b, $a)); cl: meta.inspect(math.clamp($a, $b, $b)); un: math.unit($a); d: meta.inspect(math.div($b, $a)); cmp2: math.compatible(1px * 1s, 1s * 1in); }\n"),
        ("big-maps", "@use \"sass:map\";\n@use \"sass:meta\";\n$m: (z: 1, y: 2, x: 3, w: 4, v: 5, u: 6, t: 7, s: 8, a: 9, b: 10);\n$n: map.merge($m, (k: 11, c: 12));\na { k: meta.inspect(map.keys($n)); v: meta.inspect(map.values($n)); r: meta.inspect(map.remove($n, y, w)); i: meta.inspect($n); @each $k, $v in $n { p-#{$k}: $v; } }\n"),
        ("many-selectors", "@use \"sass:selector\";\n.z, .y .x, .w > .v, .u ~ .t { &:hover, &.s { x: y; } }\na { s: selector.unify(\".a.b.c\", \".d.e.f\"); e: selector.extend(\".a .b, .c .d\", \".b, .d\", \".x, .y, .z\"); r: selector.replace(\".a.b.c\", \".b\", \".q, .r\"); }\n"),
        ("keyword-args", "@use \"sass:meta\";\n@function f($args...) { @return meta.inspect(meta.keywords($args)); }\n@mixin m($z: 1, $y: 2, $x: 3, $w: 4) { o: $z $y $x $w; }\na { k: f($z: 1, $y: 2, $x: 3, $w: 4, $a: 5); @include m($w: 9, $x: 8, $y: 7, $z: 6); }\n"),
        // deep but finite user-function recursion: a depth guard must count per compilation, not per process
        ("deep-recursion-140", "@function r($n) { @if $n <= 0 { @return 0; } @return 1 + r($n - 1); }\na { b: r(140); }\n"),
        ("deep-recursion-220", "@function r($n) { @if $n <= 0 { @return 0; } @return 1 + r($n - 1); }\n@function s($n) { @return r($n); }\na { b: s(220); c: r(10); }\n"),
        ("deep-mixin-recursion", "@mixin m($n) { @if $n > 0 { x-#{$n} { @include m($n - 1); } } }\na { @include m(60); }\n"),
        // failures in the middle of building something: whatever was half-built must not survive
        ("fail-in-selector-interpolation", ".toolbar .btn-#{$undefined-sel} { a: b; }\n"),
        ("fail-in-selector-interpolation-2", "ul.menu > .item-#{1 + $undefined-sel}, .other { a: b; }\nq { r: s; }\n"),
        ("fail-in-property-name", "a { margin-#{$undefined-prop}: 1px; b: c; }\n"),
        ("fail-in-media-query", "@media screen and (min-width: #{$undefined-mq}) { a { b: c; } }\n"),
        ("fail-in-nested-props", "a { font: { family: x; size: $undefined-np; } }\n"),
        ("fail-in-function-args", "@use \"sass:math\";\na { b: math.max(1px, 2px, $undefined-arg); }\n"),
        ("fail-in-map", "$m: (a: 1, b: $undefined-map, c: 3);\na { b: c; }\n"),
        ("fail-in-each", "@each $k in a b c { .x-#{$k} { y: $k; @if $k == b { z: $undefined-each; } } }\n"),
        ("fail-in-mixin-content", "@mixin m { w { @content; } }\n@include m { a: b; c: $undefined-content; }\n"),
        ("fail-in-at-root", "a { b { @at-root .c-#{$undefined-root} { d: e; } } }\n"),
        ("fail-in-keyframes", "@keyframes k-#{$undefined-kf} { from { a: b; } }\n"),
        // bodies that are invalid where they stand, next to valid bodies of the same shape: whether a
        // body was validated must not be remembered from another stylesheet
        ("valid-body-if", "a { @if true { p0: v; } }\n"),
        ("invalid-body-mixin-in-if", "a { @if true { @mixin m { p0: v; } } }\n"),
        ("valid-body-each", "@each $i in 1 2 { b { p0: $i; } }\n"),
        ("invalid-body-function-in-each", "@each $i in 1 2 { @function f() { @return $i; } }\n"),
        ("valid-body-rule", "a { b { p0: v; } }\n"),
        ("invalid-body-use-in-rule", "a { @use \"sass:math\"; }\n"),
        ("invalid-body-forward-in-if", "@if true { @forward \"sass:math\"; }\n"),
        ("invalid-body-decl-at-root", "p0: v;\na { b: c; }\n"),
        ("valid-body-mixin", "@mixin m { p0: v; }\na { @include m; }\n"),
        ("invalid-body-mixin-in-mixin", "@mixin m { @mixin n { p0: v; } }\na { @include m; }\n"),
        ("invalid-body-return-in-mixin", "@mixin m { @return 1; }\na { @include m; }\n"),
        ("invalid-body-content-outside", "a { @content; }\n"),
        ("plain-after-failures", "a { b: c; }\n.item-1 { d: e; }\n@media screen { f { g: h; } }\n"),
        ("random-unique", "@use \"sass:math\";\na { b: math.random(); c: math.random(10); d: unique-id(); }\n"),
        ("unique-many", "@for $i from 1 through 20 { x { y: unique-id(); } }\n"),
    ]
}

/// (module, a function of it with one argument that works on `1`, a second function)
const MEMBERS: [(&str, &str, &str); 7] = [
    ("math", "floor", "ceil"),
    ("map", "keys", "values"),
    ("string", "quote", "length"),
    ("list", "length", "separator"),
    ("color", "red", "green"),
    ("selector", "parse", "simple-selectors"),
    ("meta", "type-of", "inspect"),
];

/// Combinatorial attacks: every construct that could write into a built-in
/// module's (process-wide) scope, for every built-in module.
pub fn generated_attack(rng: &mut Rng) -> (String, String) {
    let (m, f, g) = *rng.pick(&MEMBERS);
    let arg = match m {
        "map" => "(a: 1)",
        "color" => "#123456",
        "selector" => "\".a\"",
        "string" => "\"abc\"",
        "list" => "(1 2 3)",
        _ => "1.5",
    };
    let t = rng.below(14);
    let src = match t {
        0 => format!("@use \"sass:{m}\" as *;\n@function {f}($a...) {{ @return hijacked-{f}; }}\na {{ b: {f}({arg}); c: {g}({arg}); }}\n"),
        1 => format!("@use \"sass:{m}\";\n@function {f}($a...) {{ @return hijacked; }}\na {{ b: {m}.{f}({arg}); c: {f}({arg}); }}\n"),
        2 => format!("@use \"sass:{m}\" as ns;\nns.$new-var: 1;\na {{ b: ns.$new-var; }}\n"),
        3 => format!("@use \"sass:{m}\" with ($x: 1);\na {{ b: c; }}\n"),
        4 => format!("@forward \"sass:{m}\" with ($x: 1);\na {{ b: c; }}\n"),
        5 => format!("@forward \"sass:{m}\" as p-*;\n@use \"sass:{m}\";\na {{ b: {m}.{f}({arg}); }}\n"),
        6 => format!("@forward \"sass:{m}\" hide {f};\n@use \"sass:{m}\";\na {{ b: {m}.{f}({arg}); c: {m}.{g}({arg}); }}\n"),
        7 => format!("@forward \"sass:{m}\" show {g};\n@use \"sass:{m}\" as q;\na {{ b: q.{f}({arg}); }}\n"),
        8 => format!("@use \"sass:meta\";\n@include meta.load-css(\"sass:{m}\", $with: (x: 1));\na {{ b: c; }}\n"),
        9 => format!("@use \"sass:{m}\" as *;\n$hijack: 1 !global;\n@mixin {f}() {{ x: y; }}\na {{ @include {f}; b: {g}({arg}); }}\n"),
        10 => format!("@use \"sass:{m}\" as a;\n@use \"sass:{m}\" as b;\nx {{ y: a.{f}({arg}); z: b.{g}({arg}); }}\n"),
        11 => format!("@use \"sass:meta\";\n@use \"sass:{m}\";\n$fn: meta.get-function(\"{f}\", $module: \"{m}\");\nx {{ y: meta.call($fn, {arg}); z: meta.inspect(meta.module-variables(\"{m}\")); }}\n"),
        12 => format!("@use \"sass:{m}\" as *;\n@use \"sass:math\" as mm;\nmm.$pi: 3;\nx {{ y: {f}({arg}); }}\n"),
        _ => format!("@use \"sass:{m}\";\n@mixin m {{ @content; }}\n@include m {{ x {{ y: {m}.{f}({arg}); }} }}\n{m}.$nope: 1;\n"),
    };
    (format!("gen-attack-{t}-{m}"), src)
}

/// A library that defines members named like built-in ones.
fn hijack_lib() -> String {
    let mut s = String::from("$pi: 3;\n$e: 2;\n$epsilon: 1;\n");
    for (_, f, g) in MEMBERS {
        s.push_str(&format!("@function {f}($a...) {{ @return lib-{f}; }}\n@function {g}($a...) {{ @return lib-{g}; }}\n"));
    }
    s.push_str("@function round($a...) { @return lib-round; }\n@mixin load-css($a...) { lib { css: loaded; } }\n");
    s
}

/// Compositional attacks: 1-4 header statements drawn from every way a file
/// can name a built-in module or a library shadowing one, in any order, then a
/// body that uses some members.  Many of these fail with an error; all of them
/// must give the same result everywhere and leave no trace.
pub fn composed_attack(rng: &mut Rng) -> Item {
    let mut src = String::new();
    let n = 1 + rng.usize(4);
    let mut tags = vec![];
    for k in 0..n {
        let (m, f, _) = *rng.pick(&MEMBERS);
        let t = rng.below(12);
        tags.push(format!("{t}{}", &m[..2]));
        // unusual but legal identifiers (escapes) in prefixes and namespaces now and then
        let odd = if rng.chance(1, 6) { *rng.pick(&["\\.", "\\2e ", "\\-", "\\$"]) } else { "" };
        if !odd.is_empty() {
            tags.push("odd".into());
        }
        src.push_str(&match t {
            0 => format!("@forward \"sass:{m}\";\n"),
            1 => format!("@forward \"sass:{m}\" as p{odd}{k}-*;\n"),
            2 => format!("@forward \"sass:{m}\" show {f};\n"),
            3 => format!("@forward \"sass:{m}\" hide {f};\n"),
            4 => "@forward \"lib\";\n".to_string(),
            5 => format!("@forward \"lib\" as l{odd}{k}-*;\n"),
            6 => format!("@use \"sass:{m}\";\n"),
            7 => format!("@use \"sass:{m}\" as *;\n"),
            8 => format!("@use \"sass:{m}\" as n{odd}{k};\n"),
            9 => "@use \"lib\";\n".to_string(),
            10 => format!("@use \"lib\" as u{odd}{k};\n"),
            _ => "@use \"lib\" as *;\n".to_string(),
        });
    }
    let (m, f, g) = *rng.pick(&MEMBERS);
    src.push_str(&format!("a {{ b: {f}(1); c: {g}(1); d: {m}-{f}; }}\n"));
    let mut it = Item::simple(&format!("composed-{}", tags.join("-")), &src);
    it.files.insert("_lib.scss".to_string(), hijack_lib());
    it
}

/// Multi-file items: modules that shadow or forward built-ins.
pub fn module_items() -> Vec<Item> {
    let mut out = vec![];
    let mut add = |name: &str, input: &str, files: &[(&str, &str)]| {
        let mut it = Item::simple(name, input);
        it.files = files.iter().map(|(k, v)| ((*k).to_string(), (*v).to_string())).collect();
        out.push(it);
    };
    add(
        "lib-shadows-floor",
        "@use \"lib\";\na { b: lib.floor(1.5); c: floor(1.5); d: lib.$pi; }\n",
        &[("lib.scss", "@function floor($x) { @return lib-floor; }\n$pi: lib-pi;\n")],
    );
    add(
        "lib-forwards-math",
        "@use \"lib\";\na { b: lib.floor(1.5); c: lib.$pi; d: lib.$own; }\n",
        &[("lib.scss", "@forward \"sass:math\";\n$own: 1;\n")],
    );
    add(
        "lib-forwards-math-assign",
        "@use \"lib\";\nlib.$pi: 3;\na { b: lib.$pi; }\n",
        &[("lib.scss", "@forward \"sass:math\";\n")],
    );
    add(
        "lib-configured",
        "@use \"lib\" with ($c: 7);\na { b: lib.$c; c: lib.f(); }\n",
        &[("lib.scss", "@use \"sass:math\";\n$c: 1 !default;\n@function f() { @return math.floor($c + 0.5); }\n")],
    );
    add(
        "import-then-use",
        "@import \"part\";\n@use \"sass:math\";\na { b: $from-part; c: math.$pi; d: pfloor(1.5); }\n",
        &[("_part.scss", "$from-part: 1;\n@function pfloor($x) { @return floor($x); }\n")],
    );
    add(
        "loadcss-with",
        "@use \"sass:meta\";\n@include meta.load-css(\"lib\", $with: (c: 9));\n",
        &[("lib.scss", "$c: 1 !default;\nx { y: $c; }\n")],
    );
    // siblings: different inputs over the same files (same partial reached from different places)
    for (tag, part) in [
        ("undef", "x { y: $undefined-in-part; }\n"),
        ("error", "@error \"boom from part\";\n"),
        ("ok", "$from-part: 1;\nx { y: part; }\n"),
    ] {
        let files = [("_epart.scss", part)];
        add(&format!("sib:{tag}:line1"), "@import \"epart\";\na { b: c; }\n", &files);
        add(&format!("sib:{tag}:line4"), "a { b: c; }\n\n\n@import \"epart\";\n", &files);
        add(&format!("sib:{tag}:nested"), "a { b: c; }\nr {\n  @import \"epart\";\n}\n", &files);
        add(&format!("sib:{tag}:use"), "@use \"epart\";\na { b: c; }\n", &files);
        add(&format!("sib:{tag}:loadcss"), "@use \"sass:meta\";\na { b: c; }\n@include meta.load-css(\"epart\");\n", &files);
    }
    // a user library that takes a built-in module in with `as *` and is then inspected like a module:
    // whatever identifies "the built-in module" must not be something `as *` copies along
    for m in ["math", "string", "list", "map", "color", "meta", "selector"] {
        add(
            &format!("inspect-lib-star-{m}"),
            &format!("@use \"sass:meta\";\n@use \"lib\";\na {{ f: meta.inspect(map-keys(meta.module-functions(\"lib\"))); v: meta.inspect(meta.module-variables(\"lib\")); o: lib.own(1); }}\n"),
            &[("lib.scss", &format!("@use \"sass:{m}\" as *;\n$own-var: 1;\n@function own($x) {{ @return $x + $own-var; }}\n"))],
        );
        add(
            &format!("inspect-builtin-{m}"),
            &format!("@use \"sass:meta\";\n@use \"sass:{m}\";\na {{ f: meta.inspect(map-keys(meta.module-functions(\"{m}\"))); v: meta.inspect(meta.module-variables(\"{m}\")); own: meta.function-exists(\"own\", \"{m}\"); }}\n"),
            &[],
        );
    }
    add(
        "two-users",
        "@use \"a\";\n@use \"b\";\nr { a: a.$v; b: b.$w; }\n",
        &[
            ("a.scss", "@use \"m\";\n$v: m.$x;\nm.$x: 5;\n"),
            ("b.scss", "@use \"m\";\n$w: m.$x;\n"),
            ("m.scss", "$x: 1;\nmm { x: $x; }\n"),
        ],
    );
    out
}

/// Expressions that each look something up in a process-wide table by a key
/// (built-in function by exact / caseless / unknown name, colour by name,
/// built-in module by name): concurrent compilations that hammer the same
/// tables with different keys are what a shared lookup cache must survive.
const STORM: [&str; 30] = [
    "floor(1.5)", "FLOOR(2.5)", "Floor(3.5)", "ceil(1.2)", "CEIL(1.2)", "rgb(1, 2, 3)", "RGB(1, 2, 3)",
    "Rgb(4, 5, 6)", "translate(1px)", "TRANSLATE(2px)", "var(--x)", "VAR(--y)", "unknownfn(1)", "Unknownfn(2)",
    "percentage(0.5)", "PERCENTAGE(0.25)", "quote(a)", "QUOTE(b)", "length(1 2 3)", "LENGTH(1 2)",
    "if(true, 1, 2)", "IF(false, 1, 2)", "mix(red, blue)", "MIX(RED, BLUE)", "red", "RED", "Blue", "rebeccapurple",
    "math.floor(7.5)", "meta.function-exists(\"CEIL\")",
];

/// A program made of runs of the same lookup followed by a different one.
pub fn lookup_storm(rng: &mut Rng) -> Item {
    let mut src = String::from("@use \"sass:math\";\n@use \"sass:meta\";\na {\n");
    let n = 3 + rng.usize(8);
    let mut tag = Digest::new();
    let mut p = 0;
    for _ in 0..n {
        let e = rng.pick(&STORM);
        tag.str(e);
        for _ in 0..1 + rng.usize(3) {
            src.push_str(&format!("  p{p}: {e};\n"));
            p += 1;
        }
    }
    src.push_str("}\n");
    Item::simple(&format!("storm-{}", crate::hex(tag.finish())), &src)
}

/// The functions of the built-in modules (as of Sass 1.7x); a missing one only yields "Undefined function", always.
const BUILTIN_FNS: [(&str, &[&str]); 7] = [
    ("math", &["ceil", "clamp", "floor", "max", "min", "round", "abs", "hypot", "log", "pow", "sqrt", "cos", "sin", "tan", "acos", "asin", "atan", "atan2", "compatible", "is-unitless", "unit", "div", "percentage", "random"]),
    ("string", &["quote", "index", "insert", "length", "slice", "to-upper-case", "to-lower-case", "unquote", "split"]),
    ("list", &["append", "index", "is-bracketed", "join", "length", "separator", "nth", "set-nth", "slash", "zip"]),
    ("map", &["deep-merge", "deep-remove", "get", "has-key", "keys", "merge", "remove", "set", "values"]),
    ("color", &["adjust", "scale", "change", "mix", "invert", "complement", "grayscale", "red", "green", "blue", "hue", "saturation", "lightness", "whiteness", "blackness", "alpha", "opacity", "hwb", "ie-hex-str", "channel", "space", "to-space", "is-legacy", "same"]),
    ("selector", &["is-superselector", "append", "extend", "nest", "parse", "replace", "unify", "simple-selectors"]),
    ("meta", &["calc-args", "calc-name", "call", "content-exists", "feature-exists", "function-exists", "get-function", "global-variable-exists", "inspect", "keywords", "mixin-exists", "module-functions", "module-variables", "type-of", "variable-exists"]),
];

/// A stylesheet whose FIRST function-related action is one call of one built-in, through its module,
/// through `as *`, through a forward, or by its global name: how a function is found must not depend on
/// what the process has looked up before (lazily built tables).  The argument is a literal, so no other
/// function is touched on the way; most calls fail for arity or type - always in the same way.
pub fn first_touch(rng: &mut Rng) -> Item {
    let (m, fs) = *rng.pick(&BUILTIN_FNS);
    let f = *rng.pick(fs);
    let arg = *rng.pick(&["#102030", "1", "1.5px", "\"a b\"", "(a: 1)", "1 2 3", ""]);
    let how = rng.below(5);
    let src = match how {
        0 => format!("@use \"sass:{m}\";\na {{ b: {m}.{f}({arg}); }}\n"),
        1 => format!("@use \"sass:{m}\" as *;\na {{ b: {f}({arg}); }}\n"),
        2 => format!("@use \"sass:{m}\" as q;\na {{ b: q.{f}({arg}); }}\n"),
        3 => format!("a {{ b: {f}({arg}); }}\n"),
        _ => format!("@use \"sass:meta\";\na {{ b: meta.inspect(meta.module-functions(\"{m}\")); }}\n"),
    };
    let mut it = Item::simple(&format!("first-touch-{how}-{m}.{f}"), &src);
    it.nondet = f == "random" || f == "unique-id";
    it
}

#[derive(Clone)]
pub struct CorpusCase {
    pub item: Item,
}

static CORPUS: OnceLock<Vec<Item>> = OnceLock::new();

/// The extracted sass-spec corpus as items (all cases; `nondet` set where the
/// input or a mock file calls random()/unique-id()).
pub fn corpus() -> &'static [Item] {
    CORPUS.get_or_init(|| {
        let path = format!("{}/corpus/spec_cases.jsonl", crate::verif_dir());
        let text = std::fs::read_to_string(&path).unwrap_or_default();
        let mut out = vec![];
        for line in text.lines() {
            let Ok(j) = serde_json::from_str::<Json>(line) else { continue };
            let files: BTreeMap<String, String> = j["mock"]
                .as_object()
                .map(|o| o.iter().map(|(k, v)| (k.clone(), v.as_str().unwrap_or("").to_string())).collect())
                .unwrap_or_default();
            let input = j["input"].as_str().unwrap_or("").to_string();
            let nondet = |s: &str| s.contains("random") || s.contains("unique-id") || s.contains("unique_id");
            let nd = nondet(&input) || files.values().any(|v| nondet(v));
            out.push(Item {
                name: j["test"].as_str().unwrap_or("").to_string(),
                input,
                files,
                cwd: j["cwd"].as_str().unwrap_or("").to_string(),
                fmt: Fmt { compressed: false, precision: j["precision"].as_u64().unwrap_or(10) as usize },
                nondet: nd,
                via_cwd: false,
            });
        }
        out
    })
}

/// The same input under another output format: a result must never be
/// remembered under a key that leaves the format out.
pub fn twin_with_other_format(it: &Item, rng: &mut Rng) -> Item {
    let mut t = it.clone();
    loop {
        t.fmt = Fmt { compressed: rng.chance(1, 2), precision: *rng.pick(&[0usize, 1, 3, 5, 10, 20]) };
        if t.fmt != it.fmt {
            return t;
        }
    }
}

/// Another input over the same files as `it` (a "sibling"), if the pool has one.
pub fn sibling_of(it: &Item, rng: &mut Rng) -> Option<Item> {
    if !it.name.starts_with("sib:") {
        return None;
    }
    let sibs: Vec<Item> = module_items()
        .into_iter()
        .filter(|o| o.name.starts_with("sib:") && o.files == it.files && o.input != it.input)
        .collect();
    if sibs.is_empty() {
        None
    } else {
        let mut s = sibs[rng.usize(sibs.len())].clone();
        s.fmt = it.fmt;
        Some(s)
    }
}

/// Draw one workload item.
pub fn draw_item(rng: &mut Rng) -> Item {
    let mut it = match rng.below(12) {
        11 => first_touch(rng),
        10 => lookup_storm(rng),
        0 | 1 => Item::simple("probe", &probe_program(rng.below(2))),
        2 | 3 => {
            let a = attack_programs();
            let (n, s) = a[rng.usize(a.len())];
            Item::simple(n, s)
        }
        4 => {
            if rng.chance(1, 2) {
                composed_attack(rng)
            } else {
                let (n, s) = generated_attack(rng);
                Item::simple(&n, &s)
            }
        }
        5 | 6 => {
            let m = module_items();
            m[rng.usize(m.len())].clone()
        }
        _ => {
            let c = corpus();
            if c.is_empty() {
                Item::simple("probe", &probe_program(0))
            } else {
                c[rng.usize(c.len())].clone()
            }
        }
    };
    // the same input under another format is another item (Format must never leak)
    if rng.chance(1, 3) {
        it.fmt = Fmt { compressed: rng.chance(1, 2), precision: *rng.pick(&[0usize, 3, 5, 10, 20]) };
    }
    it
}
