//! Supervisor, workers, replay and evidence writing, shared by the worlds.

use crate::core::*;
use crate::{load_known_findings, run_seed, verif_dir, KnownFinding};
use serde_json::{json, Value as Json};
use std::collections::{BTreeMap, VecDeque};
use std::io::{BufRead, BufReader, Write};
use std::process::{Child, ChildStdin, Command, Stdio};
use std::sync::mpsc;
use std::time::Instant;

pub type PropById = fn(&str) -> Option<Box<dyn Prop>>;
/// Extra subcommands of a world's binary: returns None for an unknown one.
pub type Extra = fn(&str, &[String]) -> Option<i32>;

thread_local! {
    static PROPS: std::cell::Cell<Option<PropById>> = const { std::cell::Cell::new(None) };
}

fn prop_by_id(id: &str) -> Option<Box<dyn Prop>> {
    PROPS.with(|p| p.get()).and_then(|f| f(id))
}

fn kf_match<'a>(kfs: &'a [KnownFinding], v: &Violation) -> Option<&'a KnownFinding> {
    let toks: Vec<&str> = v.signature.split_whitespace().collect();
    kfs.iter().find(|k| {
        k.property == v.property
            && k.oracle == v.oracle
            && k.signature.split_whitespace().all(|t| toks.contains(&t))
    })
}

fn harness_error(msg: &str) -> ! {
    eprintln!("HARNESS-ERROR: {msg}");
    std::process::exit(2);
}

/// Entry point of a world's binary.
pub fn run_main(props: PropById, stack_bytes: usize, extra: Extra) -> ! {
    let args: Vec<String> = std::env::args().collect();
    if args.len() < 2 {
        harness_error("usage: worlda check|worker|replay ...");
    }
    crate::panichook::install_panic_hook();
    // All simulation work happens on a thread with a large stack so that deep
    // (but bounded) recursion in rsass is not mistaken for non-termination.
    let h = std::thread::Builder::new()
        .stack_size(
            std::env::var("VERIF_MAIN_STACK_MB")
                .ok()
                .and_then(|s| s.parse::<usize>().ok())
                .map_or(stack_bytes, |mb| mb << 20),
        )
        .spawn(move || {
            PROPS.with(|p| p.set(Some(props)));
            match args[1].as_str() {
            "check" => cmd_check(&args[2..]),
            "worker" => cmd_worker(&args[2..]),
            "replay" => cmd_replay(&args[2..]),
            "one" => cmd_one(&args[2..]),
            "merge-evidence" => cmd_merge(&args[2..]),
            other => extra(other, &args[2..]).unwrap_or_else(|| harness_error("unknown subcommand")),
            }
        })
        .unwrap();
    // A panic that reaches this point happened in harness code (panics inside
    // a compilation are caught in run_job): that is a harness error, exit 2.
    let code = match h.join() {
        Ok(c) => c,
        Err(_) => {
            eprintln!("HARNESS-ERROR: harness panicked: {}", crate::panichook::last_panic());
            println!("H harness panicked: {}", crate::panichook::last_panic());
            2
        }
    };
    std::process::exit(code);
}

fn opt<'a>(args: &'a [String], name: &str) -> Option<&'a str> {
    args.iter().position(|a| a == name).and_then(|i| args.get(i + 1)).map(String::as_str)
}

fn parse_tier(s: &str) -> Tier {
    match s {
        "thorough" => Tier::Thorough,
        _ => Tier::Quick,
    }
}

// ---------------------------------------------------------------- worker

fn cmd_worker(args: &[String]) -> i32 {
    let prop = prop_by_id(&args[0]).unwrap_or_else(|| harness_error("unknown property"));
    let tier = parse_tier(&args[1]);
    let seed: u64 = args[2].parse().unwrap();
    let kfs = load_known_findings(&format!("{}/known_findings.json", verif_dir()))
        .unwrap_or_else(|e| harness_error(&e));
    let stdin = std::io::stdin();
    let stdout = std::io::stdout();
    let mut minimised = 0u32;
    // violations of one class reported by this worker so far (a thorough run would otherwise ship
    // hundreds of thousands of full cases of the same known finding to the supervisor)
    let mut sent: BTreeMap<String, u32> = BTreeMap::new();
    let runlog = std::env::var_os("VERIF_RUNLOG").is_some();
    for line in stdin.lock().lines() {
        let line = line.unwrap();
        let mut it = line.split_whitespace();
        if it.next() != Some("B") {
            continue;
        }
        let start: u64 = it.next().unwrap().parse().unwrap();
        let count: u64 = it.next().unwrap().parse().unwrap();
        let mut stats = Stats::default();
        for i in start..start + count {
            {
                let mut o = stdout.lock();
                writeln!(o, "R {i}").unwrap();
                o.flush().unwrap();
            }
            let s = run_seed(seed, prop.id(), i);
            stats.run_acc = 0;
            let vs = prop.run(s, i, tier, &mut stats);
            if runlog {
                let mut o = stdout.lock();
                writeln!(o, "L {i} {} {}", crate::hex(stats.run_acc), vs.len()).unwrap();
            }
            for mut v in vs {
                v.seed = s;
                v.index = i;
                stats.inc("violations_raw");
                // after the first few of a class only count (known findings by id, others by oracle+signature)
                let (class, cap) = match kf_match(&kfs, &v) {
                    Some(k) => (format!("known:{}", k.id), 3),
                    None => (format!("{}|{}", v.oracle, v.signature), 25),
                };
                let n = sent.entry(class.clone()).or_insert(0);
                *n += 1;
                if *n > cap {
                    if let Some(id) = class.strip_prefix("known:") {
                        stats.inc(&format!("known_hits_counted_in_worker:{id}"));
                    } else {
                        stats.inc("violations_of_a_class_already_reported_by_this_worker");
                    }
                    continue;
                }
                let v = if minimised < 12 {
                    minimised += 1;
                    minimise_class(prop.as_ref(), &v, &kfs)
                } else {
                    v
                };
                let mut o = stdout.lock();
                writeln!(o, "V {}", serde_json::to_string(&v).unwrap()).unwrap();
                o.flush().unwrap();
            }
        }
        // a worker that has grown large (world B leaks the lazy statics of every simulated
        // process, as a real process would) asks to be replaced by a fresh one
        let recycle = rss_mb() > 1500;
        let mut o = stdout.lock();
        writeln!(o, "{} {}", if recycle { "S!" } else { "S" }, serde_json::to_string(&stats.to_json()).unwrap()).unwrap();
        o.flush().unwrap();
        if recycle {
            return 0;
        }
    }
    0
}

/// Resident set size of this process in MiB (0 if unknown).
fn rss_mb() -> u64 {
    std::fs::read_to_string("/proc/self/statm")
        .ok()
        .and_then(|s| s.split_whitespace().nth(1).and_then(|x| x.parse::<u64>().ok()))
        .map_or(0, |pages| pages * 4096 / (1 << 20))
}

/// Shrink while the same oracle fires *and* the known-finding class stays the same.
fn minimise_class(p: &dyn Prop, v: &Violation, kfs: &[KnownFinding]) -> Violation {
    let class = kf_match(kfs, v).map(|k| k.id.clone());
    let mut best = v.clone();
    let mut runs = 0u64;
    let mut progress = true;
    let mut scratch = Stats::default();
    while progress && runs < 300 {
        progress = false;
        for cand in p.shrink_candidates(&best.case) {
            if runs >= 300 {
                break;
            }
            runs += 1;
            let vs = p.replay(&cand, &mut scratch);
            if let Some(mut nv) = vs
                .into_iter()
                .find(|nv| {
                    nv.oracle == best.oracle
                        && kf_match(kfs, nv).map(|k| k.id.clone()) == class
                        // an oracle that lumps every error together must not drift to another error while shrinking
                        && (best.oracle != "module_unusable" || nv.signature == best.signature)
                })
            {
                nv.seed = best.seed;
                nv.index = best.index;
                best = nv;
                progress = true;
                break;
            }
        }
    }
    best.minimised = true;
    best.shrink_steps = runs;
    best
}

/// Debug aid: run a single index in-process and print what happened.
fn cmd_one(args: &[String]) -> i32 {
    let prop = prop_by_id(&args[0]).unwrap_or_else(|| harness_error("unknown property"));
    let tier = parse_tier(opt(args, "--tier").unwrap_or("quick"));
    let seed = crate::env_seed();
    let i: u64 = args[1].parse().unwrap();
    let mut stats = Stats::default();
    let vs = prop.run(run_seed(seed, prop.id(), i), i, tier, &mut stats);
    println!("{}", serde_json::to_string_pretty(&stats.to_json()).unwrap());
    for v in vs {
        println!("VIOLATION oracle={} sig=[{}] {}", v.oracle, v.signature, v.detail);
        if std::env::var_os("VERIF_DUMP_CASE").is_some() {
            println!("CASE {}", serde_json::to_string(&v.case).unwrap_or_default());
        }
    }
    0
}

// ---------------------------------------------------------------- replay

fn cmd_replay(args: &[String]) -> i32 {
    let path = &args[0];
    let text = std::fs::read_to_string(path).unwrap_or_else(|e| harness_error(&format!("{path}: {e}")));
    let j: Json = serde_json::from_str(&text).unwrap_or_else(|e| harness_error(&format!("{path}: {e}")));
    let v: Violation =
        serde_json::from_value(j.clone()).unwrap_or_else(|e| harness_error(&format!("{path}: {e}")));
    let prop = prop_by_id(&v.property).unwrap_or_else(|| harness_error("unknown property in replay file"));
    let mut stats = Stats::default();
    println!("REPLAY property={} oracle={} seed={}", v.property, v.oracle, crate::hex(v.seed));
    let vs = prop.replay(&v.case, &mut stats);
    if let Some(nv) = vs.iter().find(|nv| nv.oracle == v.oracle) {
        println!("REPRODUCED oracle={} signature=[{}]", nv.oracle, nv.signature);
        println!("  {}", nv.detail);
        let same_hist = nv.case["history_digest"] == v.case["history_digest"];
        println!("  history digest identical: {same_hist}");
        println!("VIOLATION property={} replay={}", v.property, path);
        1
    } else if let Some(nv) = vs.first() {
        println!("DIFFERENT oracle={} (file says {})", nv.oracle, v.oracle);
        println!("VIOLATION property={} replay={}", v.property, path);
        1
    } else {
        println!("NOT-REPRODUCED (the property holds on this case with the current tree)");
        0
    }
}

// ---------------------------------------------------------------- supervisor

struct Worker {
    child: Child,
    stdin: Option<ChildStdin>,
    batch: Option<(u64, u64)>,
    last: Option<u64>,
}

enum Msg {
    Line(usize, String),
    Eof(usize),
}

fn spawn_worker(id: usize, prop: &str, tier: Tier, seed: u64, tx: &mpsc::Sender<Msg>) -> Worker {
    let exe = std::env::current_exe().unwrap();
    let mut child = Command::new(exe)
        .args(["worker", prop, tier.name(), &seed.to_string()])
        .stdin(Stdio::piped())
        .stdout(Stdio::piped())
        .stderr(Stdio::null())
        .spawn()
        .unwrap_or_else(|e| harness_error(&format!("spawn worker: {e}")));
    let stdout = child.stdout.take().unwrap();
    let tx = tx.clone();
    std::thread::spawn(move || {
        let r = BufReader::with_capacity(1 << 20, stdout);
        for line in r.lines() {
            match line {
                Ok(l) => {
                    if tx.send(Msg::Line(id, l)).is_err() {
                        return;
                    }
                }
                Err(_) => break,
            }
        }
        let _ = tx.send(Msg::Eof(id));
    });
    let stdin = child.stdin.take();
    Worker { child, stdin, batch: None, last: None }
}

fn cmd_check(args: &[String]) -> i32 {
    let t0 = Instant::now();
    let id = args[0].clone();
    let prop = prop_by_id(&id).unwrap_or_else(|| harness_error("unknown property"));
    let tier = parse_tier(opt(args, "--tier").unwrap_or("quick"));
    let seed = crate::env_seed();
    let nworkers: usize = opt(args, "--workers")
        .and_then(|s| s.parse().ok())
        .unwrap_or_else(|| {
            let n = std::thread::available_parallelism().map_or(8, |n| n.get());
            prop.max_workers().map_or(n, |m| m.min(n))
        });
    let total: u64 = opt(args, "--runs").and_then(|s| s.parse().ok()).unwrap_or_else(|| prop.runs(tier));
    let deadline_s: u64 = opt(args, "--deadline").and_then(|s| s.parse().ok()).unwrap_or(match tier {
        Tier::Quick => 240,
        Tier::Thorough => 3000,
    });
    let kfs = load_known_findings(&format!("{}/known_findings.json", verif_dir()))
        .unwrap_or_else(|e| harness_error(&e));
    let part: Option<String> = opt(args, "--part").map(str::to_string);
    let file_prefix = match &part {
        Some(p) => format!("{id}-{p}-"),
        None => format!("{id}-"),
    };
    println!(
        "SEED {seed} property={id}{} tier={} runs={total} workers={nworkers}",
        part.as_ref().map(|p| format!(" part={p}")).unwrap_or_default(),
        tier.name()
    );
    // replay files of earlier runs of this check are stale by definition
    if let Ok(rd) = std::fs::read_dir(format!("{}/replays", verif_dir())) {
        for e in rd.flatten() {
            let name = e.file_name().to_string_lossy().to_string();
            // a part only clears its own files; a whole check clears everything of the property
            if name.starts_with(&file_prefix) {
                let _ = std::fs::remove_file(e.path());
            }
        }
    }

    let bs = (total / (nworkers as u64 * 8)).clamp(1, 5000);
    let mut queue: VecDeque<(u64, u64)> = VecDeque::new();
    let mut s = 0;
    while s < total {
        let c = bs.min(total - s);
        queue.push_back((s, c));
        s += c;
    }
    let (tx, rx) = mpsc::channel::<Msg>();
    let mut workers: BTreeMap<usize, Worker> = BTreeMap::new();
    let mut next_id = 0usize;
    let mut stats = Stats::default();
    let mut raw: Vec<Violation> = vec![];
    let mut truncated = false;
    let mut aborts = 0u32;
    let mut harness_msg: Option<String> = None;
    let mut runlog: Vec<String> = vec![];

    let assign = |w: &mut Worker, queue: &mut VecDeque<(u64, u64)>, stop: bool| {
        if stop {
            w.stdin = None;
            w.batch = None;
            return;
        }
        if let Some((st, c)) = queue.pop_front() {
            w.batch = Some((st, c));
            w.last = None;
            if let Some(si) = w.stdin.as_mut() {
                let _ = writeln!(si, "B {st} {c}");
                let _ = si.flush();
            }
        } else {
            w.stdin = None; // EOF ends the worker
            w.batch = None;
        }
    };
    for _ in 0..nworkers.min(queue.len().max(1)) {
        let mut w = spawn_worker(next_id, &id, tier, seed, &tx);
        assign(&mut w, &mut queue, false);
        workers.insert(next_id, w);
        next_id += 1;
    }
    while !workers.is_empty() {
        let msg = rx.recv().unwrap();
        if !truncated && t0.elapsed().as_secs() > deadline_s {
            truncated = true;
            queue.clear();
        }
        match msg {
            Msg::Line(wid, line) => {
                let Some(w) = workers.get_mut(&wid) else { continue };
                if let Some(rest) = line.strip_prefix("L ") {
                    runlog.push(rest.to_string());
                } else if let Some(rest) = line.strip_prefix("H ") {
                    harness_msg = Some(rest.to_string());
                } else if let Some(rest) = line.strip_prefix("R ") {
                    w.last = rest.parse().ok();
                } else if let Some(rest) = line.strip_prefix("V ") {
                    match serde_json::from_str::<Violation>(rest) {
                        Ok(v) => raw.push(v),
                        Err(e) => harness_error(&format!("bad V line: {e}")),
                    }
                } else if let Some(rest) = line.strip_prefix("S! ") {
                    // batch done and the worker retires: hand the next batch to a fresh one
                    let j: Json = serde_json::from_str(rest).unwrap_or_else(|e| harness_error(&format!("bad S line: {e}")));
                    stats.merge_json(&j, 5);
                    stats.inc("workers_recycled");
                    w.batch = None;
                    w.stdin = None;
                    if !truncated && !queue.is_empty() {
                        let mut nw = spawn_worker(next_id, &id, tier, seed, &tx);
                        assign(&mut nw, &mut queue, truncated);
                        workers.insert(next_id, nw);
                        next_id += 1;
                    }
                } else if let Some(rest) = line.strip_prefix("S ") {
                    let j: Json = serde_json::from_str(rest).unwrap_or_else(|e| harness_error(&format!("bad S line: {e}")));
                    stats.merge_json(&j, 5);
                    assign(w, &mut queue, truncated);
                }
            }
            Msg::Eof(wid) => {
                let Some(mut w) = workers.remove(&wid) else { continue };
                let status = w.child.wait().ok();
                if status.and_then(|s| s.code()) == Some(2) {
                    harness_error(&format!(
                        "a worker reported a harness error during run index {:?}: {}",
                        w.last,
                        harness_msg.clone().unwrap_or_default()
                    ));
                }
                if let Some((st, c)) = w.batch {
                    // died inside a batch: the run announced last is the culprit
                    let i = w.last.unwrap_or(st);
                    let s = run_seed(seed, &id, i);
                    let confirmed = if prop.abort_needs_fresh_confirmation() {
                        // the same run as the first thing a fresh process does
                        let st = Command::new(std::env::current_exe().unwrap())
                            .args(["one", &id, &i.to_string(), "--tier", tier.name()])
                            .stdout(Stdio::null())
                            .stderr(Stdio::null())
                            .status();
                        !st.is_ok_and(|s| s.code().is_some())
                    } else {
                        true
                    };
                    if !confirmed {
                        stats.inc("worker_deaths_not_reproduced_in_fresh_process");
                        println!(
                            "# NOTE worker died during run index {i} but the same run completes as the first run of a fresh process: state carried over between simulated executions inside the worker (not counted as a violation)"
                        );
                    }
                    aborts += 1;
                    if confirmed {
                    raw.push(Violation {
                        property: id.clone(),
                        oracle: "abort".into(),
                        signature: "abort=1".into(),
                        detail: format!(
                            "worker process died ({status:?}) during run index {i} (stack overflow or abort inside the compilation)"
                        ),
                        case: json!({"seeded": true, "seed": s, "index": i, "tier": tier.name()}),
                        seed: s,
                        index: i,
                        minimised: false,
                        shrink_steps: 0,
                    });
                    }
                    if i > st {
                        queue.push_front((st, i - st));
                    }
                    if i + 1 < st + c {
                        queue.push_front((i + 1, st + c - i - 1));
                    }
                    if aborts > 50 {
                        queue.clear();
                        truncated = true;
                    }
                    let mut nw = spawn_worker(next_id, &id, tier, seed, &tx);
                    assign(&mut nw, &mut queue, truncated);
                    workers.insert(next_id, nw);
                    next_id += 1;
                }
            }
        }
    }
    drop(tx);

    if let Some(path) = std::env::var_os("VERIF_RUNLOG") {
        runlog.sort_by_key(|l| l.split_whitespace().next().and_then(|x| x.parse::<u64>().ok()).unwrap_or(0));
        let _ = std::fs::write(path, runlog.join("\n") + "\n");
    }
    // ---- classify violations
    let mut known_hit: BTreeMap<String, (String, u64)> = BTreeMap::new();
    let mut novel: Vec<Violation> = vec![];
    for v in raw {
        if let Some(k) = kf_match(&kfs, &v) {
            known_hit.entry(k.id.clone()).or_insert((k.description.clone(), 0)).1 += 1;
        } else {
            novel.push(v);
        }
    }
    // known-finding hits that the workers only counted
    for k in &kfs {
        let n = stats.c.get(&format!("known_hits_counted_in_worker:{}", k.id));
        if n > 0 {
            known_hit.entry(k.id.clone()).or_insert((k.description.clone(), 0)).1 += n;
        }
    }
    for (kid, (desc, n)) in &known_hit {
        println!("KNOWN-FINDING: property={id} {kid}: {desc} (hit {n} times)");
    }
    {
        let mut classes: BTreeMap<(String, String), u64> = BTreeMap::new();
        for v in &novel {
            *classes.entry((v.oracle.clone(), v.signature.clone())).or_insert(0) += 1;
        }
        let mut cl: Vec<_> = classes.into_iter().collect();
        cl.sort_by_key(|(_, n)| std::cmp::Reverse(*n));
        for ((o, s), n) in cl.iter().take(25) {
            println!("# class x{n}: oracle={o} signature=[{s}]");
        }
    }
    // distinct classes first, minimised ones first
    novel.sort_by_key(|v| (!v.minimised, v.oracle.clone(), v.case.to_string().len()));
    let mut reported: Vec<(String, String)> = vec![];
    let mut printed = 0;
    let replay_dir = format!("{}/replays", verif_dir());
    for v in &novel {
        let class = (v.oracle.clone(), v.signature.clone());
        if reported.contains(&class) || printed >= 5 {
            continue;
        }
        reported.push(class);
        let path = format!(
            "{replay_dir}/{file_prefix}{}-{}-{:04x}.json",
            v.oracle,
            crate::hex(v.seed),
            crate::fnv64(v.signature.as_bytes()) & 0xffff
        );
        let j = serde_json::to_value(v).unwrap();
        if let Err(e) = crate::write_json(&path, &j) {
            harness_error(&format!("{path}: {e}"));
        }
        // replay in a fresh process; it must fail the same way
        let confirmed = if v.oracle == "abort" {
            true
        } else {
            let out = Command::new(std::env::current_exe().unwrap())
                .args(["replay", &path])
                .output()
                .unwrap_or_else(|e| harness_error(&format!("replay: {e}")));
            String::from_utf8_lossy(&out.stdout).contains("REPRODUCED oracle=")
        };
        println!(
            "# {} oracle={} signature=[{}] minimised={} replay_confirmed={confirmed}",
            id, v.oracle, v.signature, v.minimised
        );
        println!("#   {}", v.detail.replace('\n', " | "));
        println!("VIOLATION property={id} replay={path}");
        printed += 1;
    }

    // ---- sanity of the exploration itself
    let sanity = if truncated { vec![] } else { prop.sanity(&stats, tier) };

    // ---- evidence
    let wall = t0.elapsed().as_secs_f64();
    let evals = stats.c.get("compilations").max(stats.c.get("runs"));
    let runs = stats.c.get("runs");
    let mut fired = serde_json::Map::new();
    let mut probes = serde_json::Map::new();
    let mut strata = serde_json::Map::new();
    let mut other = serde_json::Map::new();
    for (k, v) in &stats.c.0 {
        if let Some(r) = k.strip_prefix("fired:") {
            fired.insert(r.into(), json!(v));
        } else if let Some(r) = k.strip_prefix("probe:") {
            probes.insert(r.into(), json!(v));
        } else if let Some(r) = k.strip_prefix("stratum:") {
            strata.insert(r.into(), json!(v));
        } else {
            other.insert(k.clone(), json!(v));
        }
    }
    let mut evidence = json!({
        "property_id": id,
        "tier": tier.name(),
        "seed": seed,
        "level": prop.level(),
        "wall_s": wall,
        "violations": novel.len(),
        "coverage": {
            "evaluations": evals,
            "distinct_nontrivial": stats.distinct(),
            "distinct_nontrivial_is_estimate": stats.digest_shift > 0,
            "rule": prop.rule(),
            "samples": stats.samples,
            "simulated_runs": runs,
            "runs_per_hour": if wall > 0.0 { (runs as f64 / wall * 3600.0) as u64 } else { 0 },
            "seeds_per_hour": if wall > 0.0 { (runs as f64 / wall * 3600.0) as u64 } else { 0 },
            "simulated_time": Json::Null,
            "fault_kinds_fired": fired,
            "probes": probes,
            "strata": strata,
            "counters": other,
            "known_findings_hit": known_hit.iter().map(|(k, (_, n))| json!({"id": k, "hits": n})).collect::<Vec<_>>(),
            "worker_aborts": aborts,
            "truncated_by_deadline": truncated,
            "exhaustive": false,
        },
        "assumptions": prop.assumptions(),
    });
    if let Some(extra) = prop.evidence_extra(&stats).as_object() {
        for (k, v) in extra {
            evidence["coverage"][k] = v.clone();
        }
    }
    let epath = match &part {
        Some(p) => format!("{}/evidence/{id}.part-{p}.json", verif_dir()),
        None => format!("{}/evidence/{id}.json", verif_dir()),
    };
    if let Err(e) = crate::write_json(&epath, &evidence) {
        harness_error(&format!("{epath}: {e}"));
    }
    println!(
        "DONE property={id} runs={runs} compilations={} distinct={} violations={} known={} wall={wall:.1}s",
        stats.c.get("compilations"),
        stats.distinct(),
        novel.len(),
        known_hit.len()
    );
    if !novel.is_empty() {
        return 1;
    }
    if !sanity.is_empty() {
        for s in sanity {
            eprintln!("HARNESS-ERROR: {s}");
        }
        return 2;
    }
    0
}

// ---------------------------------------------------------------- merging parts

/// `merge-evidence <ID> <part>...`: combine the evidence of the parts of a
/// check (run by different binaries) into /verif/evidence/<ID>.json.
fn cmd_merge(args: &[String]) -> i32 {
    let id = &args[0];
    let mut parts: Vec<(String, Json)> = vec![];
    for p in &args[1..] {
        let path = format!("{}/evidence/{id}.part-{p}.json", verif_dir());
        let text = std::fs::read_to_string(&path).unwrap_or_else(|e| harness_error(&format!("{path}: {e}")));
        let j: Json = serde_json::from_str(&text).unwrap_or_else(|e| harness_error(&format!("{path}: {e}")));
        parts.push((p.clone(), j));
        let _ = std::fs::remove_file(&path);
    }
    if parts.is_empty() {
        harness_error("merge-evidence: no parts");
    }
    let sum_u = |k: &str| -> u64 { parts.iter().map(|(_, j)| j["coverage"][k].as_u64().unwrap_or(0)).sum() };
    let wall: f64 = parts.iter().map(|(_, j)| j["wall_s"].as_f64().unwrap_or(0.0)).sum();
    let violations: u64 = parts.iter().map(|(_, j)| j["violations"].as_u64().unwrap_or(0)).sum();
    let mut samples = vec![];
    let mut rule = String::new();
    let mut assumptions: Vec<Json> = vec![];
    let mut by_part = serde_json::Map::new();
    let mut fired = serde_json::Map::new();
    for (name, j) in &parts {
        for s in j["coverage"]["samples"].as_array().cloned().unwrap_or_default() {
            samples.push(json!({"part": name, "sample": s}));
        }
        rule.push_str(&format!("[part {name}] {} ", j["coverage"]["rule"].as_str().unwrap_or("")));
        for a in j["assumptions"].as_array().cloned().unwrap_or_default() {
            if !assumptions.contains(&a) {
                assumptions.push(a);
            }
        }
        if let Some(f) = j["coverage"]["fault_kinds_fired"].as_object() {
            for (k, v) in f {
                let cur = fired.get(k).and_then(Json::as_u64).unwrap_or(0);
                fired.insert(k.clone(), json!(cur + v.as_u64().unwrap_or(0)));
            }
        }
        let mut c = j["coverage"].clone();
        if let Some(o) = c.as_object_mut() {
            o.remove("samples");
        }
        by_part.insert(name.clone(), c);
    }
    let runs = sum_u("simulated_runs");
    let first = &parts[0].1;
    let evidence = json!({
        "property_id": id,
        "tier": first["tier"],
        "seed": first["seed"],
        "level": first["level"],
        "wall_s": wall,
        "violations": violations,
        "coverage": {
            "evaluations": sum_u("evaluations"),
            "distinct_nontrivial": sum_u("distinct_nontrivial"),
            "rule": rule.trim(),
            "samples": samples,
            "simulated_runs": runs,
            "runs_per_hour": if wall > 0.0 { (runs as f64 / wall * 3600.0) as u64 } else { 0 },
            "seeds_per_hour": if wall > 0.0 { (runs as f64 / wall * 3600.0) as u64 } else { 0 },
            "simulated_time": Json::Null,
            "fault_kinds_fired": fired,
            "parts": by_part,
            "exhaustive": false,
        },
        "assumptions": assumptions,
    });
    let epath = format!("{}/evidence/{id}.json", verif_dir());
    if let Err(e) = crate::write_json(&epath, &evidence) {
        harness_error(&format!("{epath}: {e}"));
    }
    println!("MERGED property={id} parts={} evaluations={} distinct={}", parts.len(), sum_u("evaluations"), sum_u("distinct_nontrivial"));
    0
}
