//! Types shared by the property modules and the driver.

use serde::{Deserialize, Serialize};
use serde_json::{json, Value as Json};
use std::collections::BTreeSet;
use crate::Counters;

#[derive(Clone, Copy, Debug, PartialEq, Eq)]
pub enum Tier {
    Quick,
    Thorough,
}

impl Tier {
    pub fn name(self) -> &'static str {
        match self {
            Tier::Quick => "quick",
            Tier::Thorough => "thorough",
        }
    }
}

#[derive(Clone, Debug, Serialize, Deserialize)]
pub struct Violation {
    pub property: String,
    /// which oracle fired
    pub oracle: String,
    /// structural description of the failing configuration, space separated
    /// `key=value` tokens; known findings are matched against it
    pub signature: String,
    /// human readable: expected vs observed
    pub detail: String,
    /// explicit, self-contained configuration (property specific)
    pub case: Json,
    #[serde(default)]
    pub seed: u64,
    #[serde(default)]
    pub index: u64,
    #[serde(default)]
    pub minimised: bool,
    #[serde(default)]
    pub shrink_steps: u64,
}

pub enum Judgement {
    Pass,
    Unjudged(&'static str),
    Fail { oracle: String, signature: String, detail: String },
}

impl Judgement {
    pub fn fail(oracle: &str, signature: String, detail: String) -> Judgement {
        Judgement::Fail { oracle: oracle.to_string(), signature, detail }
    }
}

/// Above this many distinct digests the set becomes an adaptive sample (bounded memory in thorough runs).
pub const DIGEST_CAP: usize = 400_000;

/// Per-worker (then merged) statistics of a batch.
#[derive(Default)]
pub struct Stats {
    pub c: Counters,
    /// distinct digests: exact while there are at most `DIGEST_CAP`; beyond that an adaptive sample
    /// (only digests whose low `digest_shift` bits are zero are kept), see `distinct()`
    pub digests: BTreeSet<u64>,
    pub digest_shift: u32,
    pub samples: Vec<Json>,
    /// digest of everything observable about the current run (event
    /// histories, results, interleavings); logged per run for the determinism batches
    pub run_acc: u64,
}

impl Stats {
    pub fn inc(&mut self, k: &str) {
        self.c.inc(k);
    }
    pub fn add(&mut self, k: &str, n: u64) {
        self.c.add(k, n);
    }
    /// Fold something observable into the current run's digest.
    pub fn fold(&mut self, v: u64) {
        self.run_acc = crate::mix(self.run_acc, v);
    }
    pub fn fold_str(&mut self, s: &str) {
        self.fold(crate::fnv64(s.as_bytes()));
    }
    pub fn nontrivial(&mut self, digest: u64) {
        // one more mixing step, so that the low bits are uniform whatever produced the digest
        let digest = crate::mix(digest, 0x5851_f42d_4c95_7f2d);
        if digest.trailing_zeros() >= self.digest_shift {
            self.digests.insert(digest);
            self.shrink_digests();
        }
    }
    fn shrink_digests(&mut self) {
        while self.digests.len() > DIGEST_CAP {
            self.digest_shift += 1;
            let sh = self.digest_shift;
            self.digests.retain(|d| d.trailing_zeros() >= sh);
        }
    }
    /// Number of distinct digests seen: exact up to `DIGEST_CAP`, above that the adaptive-sampling
    /// estimate |sample| * 2^shift (relative standard error about 1/sqrt(|sample|), i.e. < 0.5 %).
    pub fn distinct(&self) -> u64 {
        (self.digests.len() as u64) << self.digest_shift
    }
    pub fn sample(&mut self, max: usize, f: impl FnOnce() -> Json) {
        if self.samples.len() < max {
            self.samples.push(f());
        }
    }
    pub fn to_json(&self) -> Json {
        json!({
            "c": self.c.to_json(),
            "digests": self.digests.iter().map(|d| crate::hex(*d)).collect::<Vec<_>>(),
            "digest_shift": self.digest_shift,
            "samples": self.samples,
            "run_acc": crate::hex(self.run_acc),
        })
    }
    pub fn merge_json(&mut self, j: &Json, max_samples: usize) {
        self.c.merge(&Counters::from_json(&j["c"]));
        let other_shift = j["digest_shift"].as_u64().unwrap_or(0) as u32;
        if other_shift > self.digest_shift {
            self.digest_shift = other_shift;
            let sh = self.digest_shift;
            self.digests.retain(|d| d.trailing_zeros() >= sh);
        }
        if let Some(a) = j["digests"].as_array() {
            for d in a {
                if let Some(v) = d.as_str().and_then(|s| u64::from_str_radix(s, 16).ok()) {
                    if v.trailing_zeros() >= self.digest_shift {
                        self.digests.insert(v);
                    }
                }
            }
            self.shrink_digests();
        }
        if let Some(a) = j["samples"].as_array() {
            for s in a {
                if self.samples.len() < max_samples {
                    self.samples.push(s.clone());
                }
            }
        }
    }
}

/// A property check in world A.
pub trait Prop {
    fn id(&self) -> &'static str;
    fn level(&self) -> &'static str;
    /// Number of seeded runs for a tier.
    fn runs(&self, tier: Tier) -> u64;
    /// Generate and judge run `index`; every random choice derives from `seed`.
    fn run(&self, seed: u64, index: u64, tier: Tier, stats: &mut Stats) -> Vec<Violation>;
    /// Re-judge an explicit case (from a replay file).  Must not use randomness
    /// that is not stored in the case.
    fn replay(&self, case: &Json, stats: &mut Stats) -> Vec<Violation>;
    /// Candidate simplifications of a failing case, simplest first.
    fn shrink_candidates(&self, case: &Json) -> Vec<Json>;
    /// Evidence extras: rule text and assumptions.
    fn rule(&self) -> String;
    fn assumptions(&self) -> Vec<String>;
    /// Checks on merged statistics: (judged fraction, stuck probes) -> harness errors.
    fn sanity(&self, _stats: &Stats, _tier: Tier) -> Vec<String> {
        vec![]
    }
    /// Whether a worker death must be reproduced by the same run executed as the FIRST thing of a
    /// fresh process before it counts as a violation (worlds in which state of the simulator, not of
    /// a real process, carries over from one run to the next inside a worker).
    fn abort_needs_fresh_confirmation(&self) -> bool {
        false
    }
    /// Upper bound on worker processes (process creation does not scale in this sandbox).
    fn max_workers(&self) -> Option<usize> {
        None
    }
    /// Extra keys merged into the evidence's `coverage` object (components, step counts…).
    fn evidence_extra(&self, _stats: &Stats) -> Json {
        json!({})
    }
}

