//! Shared pieces of the C06 oracles: the generated unique-id()/random()
//! programs and the checks over their printed output.

use crate::core::Stats;
use crate::Rng;
use std::collections::BTreeMap;

pub const TWO53: u64 = 1 << 53;

/// A program making `n` pairs of unique-id() calls and some random() calls.
/// Limits are embedded in the property names so that the oracle needs no side table.
pub fn id_program(n: usize, limits: &[u64]) -> String {
    id_program_ordered(n, limits, false)
}

/// `limit_first`: the very first generator draw of the compilation goes to a
/// `random($limit)` call instead of a `random()` call.
pub fn id_program_ordered(n: usize, limits: &[u64], limit_first: bool) -> String {
    let mut s = String::from("@use \"sass:math\";\n@use \"sass:string\";\n");
    if n > 0 {
        s.push_str(&format!(
            "@for $i from 1 through {n} {{ u {{ ida: unique-id(); idb: string.unique-id(); }} }}\n"
        ));
    }
    s.push_str("r {\n");
    for (k, l) in limits.iter().enumerate() {
        if limit_first {
            s.push_str(&format!("  l{k}-{l}: math.random({l});\n"));
            s.push_str(&format!("  f{k}: math.floor(math.random());\n"));
        } else {
            s.push_str(&format!("  f{k}: math.floor(math.random());\n"));
            s.push_str(&format!("  l{k}-{l}: math.random({l});\n"));
        }
        if k % 3 == 0 {
            s.push_str(&format!("  g{k}-{l}: random({l});\n"));
        }
    }
    // limits with units: consecutive limits that denote the same quantity in different units
    // (the unit of a limit is ignored; 10mm means 10, 1cm means 1)
    if limits.first().is_some_and(|l| l % 2 == 0) {
        for (j, (lim, unit)) in [(10u64, "mm"), (1, "cm"), (96, "px"), (1, "in"), (40, "q"), (1, "cm"), (1000, "ms"), (1, "s"), (7, "px")].iter().enumerate() {
            s.push_str(&format!("  m{j}-{lim}: math.random({lim}{unit});\n"));
        }
    }
    // limits that are whole numbers only within the tolerance Sass grants: they mean the whole number.
    // With `limit_first` they get the first draws of the compilation (where the injected draws land).
    if limits.first().is_some_and(|l| l % 3 == 0) {
        let mut z = String::new();
        for (j, n) in [1u64, 2, 7, 100].iter().enumerate() {
            z.push_str(&format!("  z{j}-{n}: math.random({n}.0000001);\n"));
        }
        if limit_first {
            s = s.replacen("r {\n", &format!("r {{\n{z}"), 1);
        } else {
            s.push_str(&z);
        }
    }
    s.push_str("}\n");
    s
}

pub fn draw_limit(rng: &mut Rng) -> u64 {
    match rng.below(9) {
        // just above a power of two: the worst case of every mask-and-reject sampler
        8 => (1u64 << *rng.pick(&[1u32, 5, 10, 20, 32, 40, 52])) + 1,
        0 => 1,
        1 => 2,
        2 => TWO53 - 1,
        3 => TWO53,
        _ => {
            // log-uniform over 1..2^53
            let bits = rng.range(0, 52);
            let lo = 1u64 << bits;
            lo + rng.below(lo)
        }
    }
}

pub fn valid_identifier(s: &str) -> bool {
    let b = s.as_bytes();
    let mut i = 0;
    if i < b.len() && b[i] == b'-' {
        i += 1;
    }
    if i >= b.len() || !(b[i].is_ascii_alphabetic() || b[i] == b'_') {
        return false;
    }
    b[i..].iter().all(|c| c.is_ascii_alphanumeric() || *c == b'_' || *c == b'-')
}

/// (property name, value) pairs of the generated output.
pub fn decls(css: &str) -> Vec<(String, String)> {
    let mut out = vec![];
    for chunk in css.split(['{', '}', ';']) {
        if let Some((k, v)) = chunk.split_once(':') {
            let k = k.trim();
            if !k.is_empty() && !k.contains(' ') {
                out.push((k.to_string(), v.trim().to_string()));
            }
        }
    }
    out
}

/// All identifiers handed out in one process lifetime.
#[derive(Default)]
pub struct IdLedger {
    /// id -> (thread/task, compilation) where it was first seen
    pub seen: BTreeMap<String, (usize, usize)>,
}

/// Check one compilation's output; returns (oracle, signature tokens, detail).
pub fn check_output(
    ledger: &mut IdLedger,
    t: usize,
    k: usize,
    css: &str,
    stats: &mut Stats,
) -> Vec<(String, String, String)> {
    let mut fails = vec![];
    for (name, val) in decls(css) {
        if name == "ida" || name == "idb" {
            stats.inc("ids_checked");
            if !valid_identifier(&val) {
                fails.push((
                    "id_not_an_identifier".into(),
                    String::new(),
                    format!("unique-id() returned `{val}`, which is not a CSS identifier"),
                ));
            }
            if let Some((t0, k0)) = ledger.seen.insert(val.clone(), (t, k)) {
                let cross = t0 != t;
                if cross {
                    stats.inc("probe:duplicate_across_tasks");
                }
                fails.push((
                    "id_not_unique".into(),
                    format!("across_tasks={} across_compilations={}", u8::from(cross), u8::from(cross || k0 != k)),
                    format!(
                        "unique-id() returned `{val}` twice in one process: thread/task {t0} compilation {k0} and thread/task {t} compilation {k}"
                    ),
                ));
            }
        } else if name.starts_with('f') && name.len() > 1 && name[1..].chars().all(|c| c.is_ascii_digit()) {
            stats.inc("random_unit_checked");
            if val != "0" {
                fails.push((
                    "random_out_of_unit_interval".into(),
                    String::new(),
                    format!("math.floor(math.random()) printed `{val}`, so random() was not in [0, 1)"),
                ));
            }
        } else if let Some((_, lim)) = name.split_once('-').filter(|(a, _)| {
            (a.starts_with('l') || a.starts_with('g') || a.starts_with('m') || a.starts_with('z')) && a.len() > 1 && a[1..].chars().all(|c| c.is_ascii_digit())
        }) {
            stats.inc("random_limit_checked");
            let limit: u64 = lim.parse().unwrap_or(0);
            if limit == 1 || limit == TWO53 || limit == TWO53 - 1 {
                stats.inc("probe:boundary_limit");
            }
            match val.parse::<u64>() {
                Ok(v) if v >= 1 && v <= limit => {
                    if v == limit {
                        stats.inc("probe:random_hit_upper_bound");
                    }
                    if v == 1 {
                        stats.inc("probe:random_hit_lower_bound");
                    }
                }
                _ => fails.push((
                    "random_out_of_range".into(),
                    format!(
                        "limit_class={}",
                        if limit <= 2 { "tiny" } else if limit >= TWO53 - 1 { "max" } else { "mid" }
                    ),
                    format!("random({limit}) printed `{val}`, not an integer in [1, {limit}]"),
                )),
            }
        }
    }
    fails
}

/// Generator seeds that start with an unlucky STREAK: the first 20 outputs all have their low 6 bits
/// above 32 (`low`), or all lie in the upper half of the 64-bit range (`high`).  A sampler that redraws
/// a bounded number of times meets its worst case only after such a streak (about 2^-20 per call when
/// left to chance).  Found by searching seeds through the public API; empty if none is found in budget.
pub struct StreakSeeds {
    pub low: Vec<u64>,
    pub high: Vec<u64>,
}

pub fn streak_seeds() -> &'static StreakSeeds {
    static S: std::sync::OnceLock<StreakSeeds> = std::sync::OnceLock::new();
    S.get_or_init(|| {
        let mut low = vec![];
        let mut high = vec![];
        let mut s = 1u64;
        while (low.len() < 2 || high.len() < 2) && s < 30_000_000 {
            let mut r = fastrand::Rng::with_seed(s);
            let first = r.u64(..);
            let lo_ok = first & 63 > 32;
            let hi_ok = first >> 63 == 1;
            if lo_ok || hi_ok {
                let (mut l, mut h) = (lo_ok, hi_ok);
                for _ in 0..19 {
                    let v = r.u64(..);
                    l = l && v & 63 > 32;
                    h = h && v >> 63 == 1;
                    if !l && !h {
                        break;
                    }
                }
                if l && low.len() < 2 {
                    low.push(s);
                }
                if h && high.len() < 2 {
                    high.push(s);
                }
            }
            s += 1;
        }
        StreakSeeds { low, high }
    })
}

/// Generator seeds whose FIRST draw is extreme: the injected "unlucky draw".
/// `zero` makes the first 64-bit output exactly 0 (algebraic, for the wyrand
/// step of fastrand 2.x: state + C0 == 0; verified at run time and dropped if
/// the generator changed); `low`/`high` are found by searching seeds through
/// the public API for a first output in the lowest / highest 2^-20 of the range.
pub struct ExtremeSeeds {
    pub zero: Option<u64>,
    /// first 64-bit output is u64::MAX (a known solution of the wyrand step, verified at run time)
    pub max: Option<u64>,
    pub low: Vec<u64>,
    pub high: Vec<u64>,
}

pub fn extreme_seeds() -> &'static ExtremeSeeds {
    static S: std::sync::OnceLock<ExtremeSeeds> = std::sync::OnceLock::new();
    S.get_or_init(|| {
        const WY_CONST_0: u64 = 0x2d35_8dcc_aa6c_78a5;
        let z = 0u64.wrapping_sub(WY_CONST_0);
        let mut r = fastrand::Rng::with_seed(z);
        let zero = (r.u64(..) == 0).then_some(z);
        let max = [0xd2ca_7233_5593_875a_u64].into_iter().find(|s| fastrand::Rng::with_seed(*s).u64(..) == u64::MAX);
        let mut low = vec![];
        let mut high = vec![];
        let mut s = 1u64;
        while (low.len() < 4 || high.len() < 4) && s < 50_000_000 {
            let v = fastrand::Rng::with_seed(s).u64(..);
            if v >> 44 == 0 && low.len() < 4 {
                low.push(s);
            }
            if v >> 44 == (1 << 20) - 1 && high.len() < 4 {
                high.push(s);
            }
            s += 1;
        }
        ExtremeSeeds { zero, max, low, high }
    })
}

/// A generator seed for a run: mostly ordinary, sometimes an extreme one.
pub fn draw_fastrand_seed(rng: &mut Rng, stats: &mut Stats) -> u64 {
    let e = extreme_seeds();
    match rng.below(8) {
        0 => {
            if let Some(z) = e.zero {
                stats.inc("fired:rng_first_draw_zero");
                return z;
            }
            stats.inc("probe:zero_seed_unavailable");
            rng.next_u64()
        }
        1 if !e.low.is_empty() => {
            stats.inc("fired:rng_first_draw_lowest");
            *rng.pick(&e.low)
        }
        3 if e.max.is_some() => {
            stats.inc("fired:rng_first_draw_max");
            e.max.unwrap_or(0)
        }
        4 => {
            let st = streak_seeds();
            let pool: Vec<u64> = st.low.iter().chain(st.high.iter()).copied().collect();
            if pool.is_empty() {
                rng.next_u64()
            } else {
                stats.inc("fired:rng_unlucky_streak");
                *rng.pick(&pool)
            }
        }
        2 if !e.high.is_empty() => {
            stats.inc("fired:rng_first_draw_highest");
            *rng.pick(&e.high)
        }
        _ => rng.next_u64(),
    }
}
