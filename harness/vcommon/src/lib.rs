//! Shared plumbing for the rsass deterministic-simulation harness:
//! one PRNG discipline, hashing, environment, evidence and replay files.
//!
//! Nothing here draws from a clock or from the OS for anything that reaches
//! a simulated run; `Instant` is only used for wall-time reporting.

pub mod core;
pub mod driver;
pub mod ids;
pub mod panichook;
pub mod pool;

pub use serde_json::{json, Map, Value as Json};
use std::collections::BTreeMap;

/// SplitMix64 — the only source of randomness in the harness.
#[derive(Clone, Debug)]
pub struct Rng(pub u64);

impl Rng {
    pub fn new(seed: u64) -> Self {
        Rng(seed)
    }
    pub fn next_u64(&mut self) -> u64 {
        self.0 = self.0.wrapping_add(0x9E37_79B9_7F4A_7C15);
        let mut z = self.0;
        z = (z ^ (z >> 30)).wrapping_mul(0xBF58_476D_1CE4_E5B9);
        z = (z ^ (z >> 27)).wrapping_mul(0x94D0_49BB_1331_11EB);
        z ^ (z >> 31)
    }
    /// Uniform in 0..n (n > 0).
    pub fn below(&mut self, n: u64) -> u64 {
        debug_assert!(n > 0);
        // multiply-shift; bias is irrelevant here
        ((u128::from(self.next_u64()) * u128::from(n)) >> 64) as u64
    }
    pub fn usize(&mut self, n: usize) -> usize {
        self.below(n as u64) as usize
    }
    /// Uniform in lo..=hi.
    pub fn range(&mut self, lo: u64, hi: u64) -> u64 {
        lo + self.below(hi - lo + 1)
    }
    /// True with probability num/den.
    pub fn chance(&mut self, num: u64, den: u64) -> bool {
        self.below(den) < num
    }
    pub fn pick<'a, T>(&mut self, xs: &'a [T]) -> &'a T {
        &xs[self.usize(xs.len())]
    }
    pub fn shuffle<T>(&mut self, xs: &mut [T]) {
        for i in (1..xs.len()).rev() {
            let j = self.usize(i + 1);
            xs.swap(i, j);
        }
    }
    /// A derived, independent generator (does not disturb self beyond one draw).
    pub fn fork(&mut self) -> Rng {
        Rng(self.next_u64())
    }
}

pub fn mix(a: u64, b: u64) -> u64 {
    let mut r = Rng(a ^ b.rotate_left(32) ^ 0x5851_F42D_4C95_7F2D);
    r.next_u64() ^ Rng(b).next_u64()
}

/// FNV-1a 64.
pub fn fnv64(bytes: &[u8]) -> u64 {
    let mut h: u64 = 0xcbf2_9ce4_8422_2325;
    for b in bytes {
        h ^= u64::from(*b);
        h = h.wrapping_mul(0x0000_0100_0000_01B3);
    }
    h
}

/// Incremental hasher over strings/ints with separators (stable across runs).
#[derive(Clone)]
pub struct Digest(u64);
impl Default for Digest {
    fn default() -> Self {
        Digest(0xcbf2_9ce4_8422_2325)
    }
}
impl Digest {
    pub fn new() -> Self {
        Self::default()
    }
    pub fn bytes(&mut self, b: &[u8]) -> &mut Self {
        for x in b {
            self.0 ^= u64::from(*x);
            self.0 = self.0.wrapping_mul(0x0000_0100_0000_01B3);
        }
        self.0 ^= 0xff;
        self.0 = self.0.wrapping_mul(0x0000_0100_0000_01B3);
        self
    }
    pub fn str(&mut self, s: &str) -> &mut Self {
        self.bytes(s.as_bytes())
    }
    pub fn u64(&mut self, v: u64) -> &mut Self {
        self.bytes(&v.to_le_bytes())
    }
    pub fn finish(&self) -> u64 {
        // final avalanche
        Rng(self.0).next_u64()
    }
}

/// The seed of run `i` of property `prop` under `VERIF_SEED = seed`.
pub fn run_seed(seed: u64, prop: &str, i: u64) -> u64 {
    mix(mix(seed, fnv64(prop.as_bytes())), i)
}

pub fn env_seed() -> u64 {
    match std::env::var("VERIF_SEED") {
        Ok(s) if !s.trim().is_empty() => s.trim().parse::<u64>().unwrap_or_else(|_| {
            // accept negative / huge values by hashing the text
            fnv64(s.as_bytes())
        }),
        _ => 1,
    }
}

pub fn hex(v: u64) -> String {
    format!("{v:016x}")
}

/// Counter bag with deterministic (sorted) output.
#[derive(Clone, Debug, Default)]
pub struct Counters(pub BTreeMap<String, u64>);
impl Counters {
    pub fn inc(&mut self, k: &str) {
        self.add(k, 1);
    }
    pub fn add(&mut self, k: &str, n: u64) {
        if let Some(v) = self.0.get_mut(k) {
            *v += n;
        } else {
            self.0.insert(k.to_string(), n);
        }
    }
    pub fn get(&self, k: &str) -> u64 {
        self.0.get(k).copied().unwrap_or(0)
    }
    pub fn merge(&mut self, o: &Counters) {
        for (k, v) in &o.0 {
            self.add(k, *v);
        }
    }
    pub fn to_json(&self) -> Json {
        Json::Object(self.0.iter().map(|(k, v)| (k.clone(), json!(v))).collect())
    }
    pub fn from_json(j: &Json) -> Counters {
        let mut c = Counters::default();
        if let Some(o) = j.as_object() {
            for (k, v) in o {
                c.add(k, v.as_u64().unwrap_or(0));
            }
        }
        c
    }
}

/// Known findings file (committed, never written at run time).
#[derive(Clone, Debug)]
pub struct KnownFinding {
    pub property: String,
    pub id: String,
    pub oracle: String,
    pub signature: String,
    pub description: String,
}

pub fn load_known_findings(path: &str) -> Result<Vec<KnownFinding>, String> {
    let text = match std::fs::read_to_string(path) {
        Ok(t) => t,
        Err(e) if e.kind() == std::io::ErrorKind::NotFound => return Ok(vec![]),
        Err(e) => return Err(format!("{path}: {e}")),
    };
    let j: Json = serde_json::from_str(&text).map_err(|e| format!("{path}: {e}"))?;
    let mut out = vec![];
    for e in j["findings"].as_array().cloned().unwrap_or_default() {
        let s = |k: &str| e[k].as_str().unwrap_or("").to_string();
        out.push(KnownFinding {
            property: s("property"),
            id: s("id"),
            oracle: s("oracle"),
            signature: s("signature"),
            description: s("description"),
        });
    }
    Ok(out)
}

pub fn verif_dir() -> String {
    std::env::var("VERIF_DIR").unwrap_or_else(|_| "/verif".to_string())
}

/// Write a file atomically (tmp + rename) so a killed check never leaves a
/// half-written evidence or replay file behind.
pub fn write_atomic(path: &str, data: &[u8]) -> std::io::Result<()> {
    if let Some(dir) = std::path::Path::new(path).parent() {
        std::fs::create_dir_all(dir)?;
    }
    let tmp = format!("{path}.tmp.{}", std::process::id());
    std::fs::write(&tmp, data)?;
    std::fs::rename(&tmp, path)
}

pub fn write_json(path: &str, j: &Json) -> std::io::Result<()> {
    let mut s = serde_json::to_string_pretty(j).unwrap();
    s.push('\n');
    write_atomic(path, s.as_bytes())
}

#[cfg(test)]
mod tests {
    use super::*;
    #[test]
    fn rng_is_stable() {
        let mut r = Rng::new(1);
        assert_eq!(r.next_u64(), 0x910a2dec89025cc1);
        let mut r = Rng::new(7);
        for _ in 0..1000 {
            assert!(r.below(10) < 10);
        }
    }
}
