//! A quiet panic hook that remembers the last panic message of the thread.
use std::cell::RefCell;

thread_local! {
    static LAST_PANIC: RefCell<String> = const { RefCell::new(String::new()) };
}

pub fn last_panic() -> String {
    LAST_PANIC.with(|p| p.borrow().clone())
}

pub fn install_panic_hook() {
    std::panic::set_hook(Box::new(|info| {
        let msg = if let Some(s) = info.payload().downcast_ref::<&str>() {
            (*s).to_string()
        } else if let Some(s) = info.payload().downcast_ref::<String>() {
            s.clone()
        } else {
            "<non-string panic>".to_string()
        };
        let loc = info
            .location()
            .map(|l| format!(" at {}:{}", l.file(), l.line()))
            .unwrap_or_default();
        LAST_PANIC.with(|p| *p.borrow_mut() = format!("{msg}{loc}"));
    }));
}
