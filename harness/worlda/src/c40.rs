//! C40 — the command-line tool mirrors the library (world C: the real
//! `rsass` binary, the real kernel file system, stdout chosen by the harness).

use crate::core::*;
use rsass::input::FsContext;
use rsass::output::{Format, Style};
use serde::{Deserialize, Serialize};
use serde_json::{json, Value as Json};
use std::collections::BTreeMap;
use std::fs;
use std::io::Read;
use std::os::fd::{FromRawFd, OwnedFd};
use std::path::{Path, PathBuf};
use std::process::{Command, Stdio};
use vcommon::Rng;

pub struct C40;

#[derive(Clone, Copy, Debug, PartialEq, Eq, Serialize, Deserialize)]
pub enum StdoutKind {
    /// a pipe drained as fast as possible
    Normal,
    /// a 4 KiB pipe drained one byte at a time: many partial writes
    Slow,
    /// /dev/full: every write fails with ENOSPC
    Full,
    /// a pipe whose read end is already closed: EPIPE
    Epipe,
    /// a non-blocking 4 KiB pipe that nobody reads while the tool runs: a large `write` is accepted
    /// only in part (short write), the next one fails with EAGAIN
    NonBlock,
    /// a regular file under a file-size limit (RLIMIT_FSIZE, SIGXFSZ ignored): the write that crosses
    /// the limit is short, the next one fails with EFBIG
    FileLimit,
}

#[derive(Clone, Debug, Serialize, Deserialize)]
pub struct Case {
    /// files of the scratch directory (relative path -> content)
    pub files: BTreeMap<String, String>,
    /// directories to create even if empty
    pub dirs: Vec<String>,
    /// input arguments in order (may name missing files or directories)
    pub inputs: Vec<String>,
    /// None = default
    pub style: Option<String>,
    pub style_short_flag: bool,
    pub precision: Option<usize>,
    pub load_path: Option<String>,
    pub stdout: StdoutKind,
    /// for each input: the marker (`dep<k>-from-dir` / `dep<k>-from-lp`) that must appear in the
    /// output, if the layout fixes independently of the library where its `dep` comes from
    pub expect_dep_from: Vec<Option<String>>,
    /// markers of files that exist where the tool must NOT look (the cwd when the input is in a
    /// sub-directory; `<input dir>/<load path>`): they must never reach stdout
    #[serde(default)]
    pub forbidden: Vec<String>,
    /// per input: its dependency exists only in such a place, so the invocation must fail
    #[serde(default)]
    pub unresolvable: Vec<bool>,
    /// how the options are written: bit 0 = `--opt=value` for long options, bit 1 = options after the
    /// inputs, bit 2 = `--load-path` spelled out instead of `-I`
    #[serde(default)]
    pub argv_form: u8,
    /// for `FileLimit`: the size limit in bytes
    #[serde(default)]
    pub stdout_limit: u64,
    /// further markers that must reach stdout when the invocation succeeds (dependencies found in the
    /// load path although a plain FILE named like the url's directory part sits next to the input)
    #[serde(default)]
    pub also_expect: Vec<String>,
}

fn cli_bin() -> PathBuf {
    PathBuf::from(std::env::var("VERIF_CLI_BIN").unwrap_or_else(|_| format!("{}/target/cli/release/rsass", vcommon::verif_dir())))
}

struct Scratch(PathBuf);
impl Drop for Scratch {
    fn drop(&mut self) {
        let _ = fs::remove_dir_all(&self.0);
    }
}

fn materialise(case: &Case, tag: &str) -> Scratch {
    let dir = PathBuf::from(format!("{}/.scratch/c40/{}-{tag}", vcommon::verif_dir(), std::process::id()));
    let _ = fs::remove_dir_all(&dir);
    fs::create_dir_all(&dir).expect("scratch dir");
    for d in &case.dirs {
        fs::create_dir_all(dir.join(d)).expect("scratch sub dir");
    }
    for (p, c) in &case.files {
        let full = dir.join(p);
        if let Some(parent) = full.parent() {
            fs::create_dir_all(parent).expect("scratch parent");
        }
        fs::write(full, c).expect("scratch file");
    }
    Scratch(dir)
}

fn format_of(case: &Case) -> Format {
    Format {
        style: match case.style.as_deref() {
            Some("compressed") => Style::Compressed,
            _ => Style::Expanded,
        },
        precision: case.precision.unwrap_or(5),
    }
}

/// The documented search of the file loader, written down once more in the harness: the url joined
/// to each directory in order (the input's directory, then the load path), first regular file wins.
/// The reference must not share the component under test: the tool and `FsContext` both contain
/// rsass' `FsLoader`, so agreement between those two says nothing about either (§12, lesson 3).
#[derive(Debug)]
struct RefLoader {
    dirs: Vec<PathBuf>,
}

impl rsass::input::Loader for RefLoader {
    type File = fs::File;
    fn find_file(&self, url: &str) -> Result<Option<fs::File>, rsass::input::LoadError> {
        if url.is_empty() {
            return Ok(None);
        }
        for d in &self.dirs {
            let full = d.join(url);
            if full.is_file() {
                return fs::File::open(&full).map(Some).map_err(|e| rsass::input::LoadError::Input(full.display().to_string(), e));
            }
        }
        Ok(None)
    }
}

/// The library reference: per input, the root read from the file, rsass' `Context` over the
/// reference loader (input's directory, then the load path), with_format + transform, run with the
/// scratch directory as cwd.  It is ALSO computed through rsass' own
/// `FsContext::for_path` + `push_path`; the two must agree (probe / violation `fscontext_differs`).
fn library_reference(case: &Case, dir: &Path) -> Vec<Result<Vec<u8>, String>> {
    use rsass::input::{Context, SourceFile, SourceName};
    let old = std::env::current_dir().ok();
    std::env::set_current_dir(dir).expect("chdir scratch");
    let mut out = vec![];
    for name in &case.inputs {
        let r = (|| -> Result<Vec<u8>, rsass::Error> {
            let path = Path::new(name);
            let mut f = fs::File::open(path).map_err(|e| rsass::input::LoadError::Input(path.display().to_string(), e))?;
            let base = path.parent().map(Path::to_path_buf).unwrap_or_default();
            let fname = path.file_name().map(|n| n.to_string_lossy().into_owned()).unwrap_or_default();
            let src = SourceFile::read(&mut f, SourceName::root(fname))?;
            let mut dirs = vec![base];
            if let Some(lp) = &case.load_path {
                dirs.push(PathBuf::from(lp));
            }
            Context::for_loader(RefLoader { dirs }).with_format(format_of(case)).transform(src)
        })();
        let failed = r.is_err();
        out.push(r.map_err(|e| e.to_string()));
        if failed {
            break;
        }
    }
    if let Some(o) = old {
        let _ = std::env::set_current_dir(o);
    }
    out
}

/// The same through rsass' own `FsContext` (shares `FsLoader` with the tool).
fn fscontext_reference(case: &Case, dir: &Path) -> Vec<Result<Vec<u8>, String>> {
    let old = std::env::current_dir().ok();
    std::env::set_current_dir(dir).expect("chdir scratch");
    let mut out = vec![];
    for name in &case.inputs {
        let r = (|| -> Result<Vec<u8>, rsass::Error> {
            let (mut ctx, src) = FsContext::for_path(Path::new(name))?;
            if let Some(lp) = &case.load_path {
                ctx.push_path(Path::new(lp));
            }
            ctx.with_format(format_of(case)).transform(src)
        })();
        let failed = r.is_err();
        out.push(r.map_err(|e| e.to_string()));
        if failed {
            break;
        }
    }
    if let Some(o) = old {
        let _ = std::env::set_current_dir(o);
    }
    out
}

pub struct CliOut {
    pub code: Option<i32>,
    pub signal: Option<i32>,
    pub stdout: Vec<u8>,
    pub stderr: Vec<u8>,
    pub timed_out: bool,
}

fn argv(case: &Case) -> Vec<String> {
    let eq = case.argv_form & 1 != 0;
    let mut a = vec![];
    if let Some(s) = &case.style {
        if case.style_short_flag {
            a.push("-t".to_string());
            a.push(s.clone());
        } else if eq {
            a.push(format!("--style={s}"));
        } else {
            a.push("--style".to_string());
            a.push(s.clone());
        }
    }
    if let Some(p) = case.precision {
        if eq {
            a.push(format!("--precision={p}"));
        } else {
            a.push("--precision".into());
            a.push(p.to_string());
        }
    }
    if let Some(lp) = &case.load_path {
        if case.argv_form & 4 != 0 {
            if eq {
                a.push(format!("--load-path={lp}"));
            } else {
                a.push("--load-path".into());
                a.push(lp.clone());
            }
        } else {
            a.push("-I".into());
            a.push(lp.clone());
        }
    }
    if case.argv_form & 2 != 0 {
        // options after the inputs
        let mut b: Vec<String> = case.inputs.clone();
        b.extend(a);
        return b;
    }
    a.extend(case.inputs.iter().cloned());
    a
}

fn run_cli(case: &Case, dir: &Path) -> CliOut {
    use std::os::unix::process::ExitStatusExt;
    let mut cmd = Command::new(cli_bin());
    cmd.args(argv(case)).current_dir(dir).env_clear().stdin(Stdio::null()).stderr(Stdio::piped());
    let mut reader: Option<std::thread::JoinHandle<Vec<u8>>> = None;
    // NonBlock: the read end is held open and only drained after the tool has exited
    let mut held_read_end: Option<fs::File> = None;
    match case.stdout {
        StdoutKind::Normal => {
            cmd.stdout(Stdio::piped());
        }
        StdoutKind::Full => {
            let f = fs::OpenOptions::new().write(true).open("/dev/full").expect("/dev/full");
            cmd.stdout(Stdio::from(f));
        }
        StdoutKind::FileLimit => {
            use std::os::unix::process::CommandExt;
            let path = dir.join(".stdout-file");
            let f = fs::File::create(&path).expect("stdout file");
            cmd.stdout(Stdio::from(f));
            let limit = case.stdout_limit.max(1);
            // SAFETY: only async-signal-safe calls between fork and exec.
            unsafe {
                cmd.pre_exec(move || {
                    libc::signal(libc::SIGXFSZ, libc::SIG_IGN);
                    let rl = libc::rlimit { rlim_cur: limit, rlim_max: limit };
                    libc::setrlimit(libc::RLIMIT_FSIZE, &rl);
                    Ok(())
                });
            }
        }
        StdoutKind::NonBlock => {
            let mut fds = [0i32; 2];
            // SAFETY: plain pipe(2)/fcntl(2); both ends are wrapped in OwnedFd right away.
            let (r, w) = unsafe {
                assert_eq!(libc::pipe2(fds.as_mut_ptr(), libc::O_CLOEXEC), 0);
                libc::fcntl(fds[1], libc::F_SETPIPE_SZ, 4096);
                let fl = libc::fcntl(fds[1], libc::F_GETFL);
                libc::fcntl(fds[1], libc::F_SETFL, fl | libc::O_NONBLOCK);
                (OwnedFd::from_raw_fd(fds[0]), OwnedFd::from_raw_fd(fds[1]))
            };
            held_read_end = Some(fs::File::from(r));
            cmd.stdout(Stdio::from(w));
        }
        StdoutKind::Slow | StdoutKind::Epipe => {
            let mut fds = [0i32; 2];
            // SAFETY: plain pipe(2); both ends are wrapped in OwnedFd right away.
            let (r, w) = unsafe {
                assert_eq!(libc::pipe2(fds.as_mut_ptr(), libc::O_CLOEXEC), 0);
                (OwnedFd::from_raw_fd(fds[0]), OwnedFd::from_raw_fd(fds[1]))
            };
            if case.stdout == StdoutKind::Slow {
                // SAFETY: fcntl on an fd we own.
                unsafe {
                    libc::fcntl(fds[1], libc::F_SETPIPE_SZ, 4096);
                }
                let mut rf = fs::File::from(r);
                reader = Some(std::thread::spawn(move || {
                    let mut all = vec![];
                    let mut b = [0u8; 1];
                    loop {
                        match rf.read(&mut b) {
                            Ok(0) => break,
                            Ok(_) => all.push(b[0]),
                            Err(e) if e.kind() == std::io::ErrorKind::Interrupted => {}
                            Err(_) => break,
                        }
                    }
                    all
                }));
            } else {
                drop(r); // nobody will ever read: EPIPE
            }
            cmd.stdout(Stdio::from(w));
        }
    }
    let mut child = cmd.spawn().expect("spawn rsass cli");
    drop(cmd); // closes our copy of the write end
    let pid = child.id() as i32;
    let done = std::sync::Arc::new(std::sync::atomic::AtomicBool::new(false));
    let timed_out = std::sync::Arc::new(std::sync::atomic::AtomicBool::new(false));
    {
        let (done, timed_out) = (done.clone(), timed_out.clone());
        std::thread::spawn(move || {
            for _ in 0..600 {
                std::thread::sleep(std::time::Duration::from_millis(100));
                if done.load(std::sync::atomic::Ordering::Relaxed) {
                    return;
                }
            }
            timed_out.store(true, std::sync::atomic::Ordering::Relaxed);
            // SAFETY: kill(2) on our own child.
            unsafe {
                libc::kill(pid, libc::SIGKILL);
            }
        });
    }
    let mut stdout = vec![];
    let mut stderr = vec![];
    let so = child.stdout.take();
    let se = child.stderr.take();
    let so_thread = so.map(|mut s| {
        std::thread::spawn(move || {
            let mut v = vec![];
            let _ = s.read_to_end(&mut v);
            v
        })
    });
    if let Some(mut s) = se {
        let _ = s.read_to_end(&mut stderr);
    }
    if let Some(t) = so_thread {
        stdout = t.join().unwrap_or_default();
    }
    if let Some(t) = reader {
        stdout = t.join().unwrap_or_default();
    }
    let status = child.wait().expect("wait cli");
    done.store(true, std::sync::atomic::Ordering::Relaxed);
    if let Some(mut r) = held_read_end.take() {
        // every write end is closed by now: this reads what the pipe buffered, then EOF
        let _ = r.read_to_end(&mut stdout);
    }
    if case.stdout == StdoutKind::FileLimit {
        stdout = fs::read(dir.join(".stdout-file")).unwrap_or_default();
    }
    CliOut {
        code: status.code(),
        signal: status.signal(),
        stdout,
        stderr,
        timed_out: timed_out.load(std::sync::atomic::Ordering::Relaxed),
    }
}

pub fn judge(case: &Case, tag: &str, stats: &mut Stats) -> (Vec<(String, String, String)>, Json) {
    let scratch = materialise(case, tag);
    let reference = library_reference(case, &scratch.0);
    // rsass' own FsContext must agree with the documented search (same bytes, same success/failure)
    let own = fscontext_reference(case, &scratch.0);
    let same = reference.len() == own.len()
        && reference.iter().zip(&own).all(|(a, b)| match (a, b) {
            (Ok(x), Ok(y)) => x == y,
            (Err(_), Err(_)) => true,
            _ => false,
        });
    let fscontext_differs = !same;
    let all_ok = reference.len() == case.inputs.len() && reference.iter().all(Result::is_ok);
    let mut expected: Vec<u8> = vec![];
    for r in &reference {
        match r {
            Ok(b) => expected.extend_from_slice(b),
            Err(_) => break,
        }
    }
    let out = run_cli(case, &scratch.0);
    stats.inc("cli_processes");
    stats.inc(&format!("fired:stdout_{:?}", case.stdout));
    stats.fold_str(&format!("{:?} {:?} {} {}", out.code, out.signal, vcommon::fnv64(&out.stdout), vcommon::fnv64(&out.stderr)));
    let mut fails = vec![];
    let sig = format!(
        "stdout={:?} inputs={} all_ok={} style={} precision={} load_path={}",
        case.stdout,
        case.inputs.len(),
        u8::from(all_ok),
        case.style.as_deref().unwrap_or("default"),
        case.precision.map_or("default".to_string(), |p| p.to_string()),
        u8::from(case.load_path.is_some())
    );
    let status_ok = out.code == Some(0);
    let stderr_text = String::from_utf8_lossy(&out.stderr).into_owned();
    let has_error_line = stderr_text.lines().any(|l| l.starts_with("Error:"));
    let observed = json!({
        "argv": argv(case),
        "exit_code": out.code,
        "signal": out.signal,
        "stdout_len": out.stdout.len(),
        "stdout_digest": vcommon::hex(vcommon::fnv64(&out.stdout)),
        "stderr": stderr_text.chars().take(400).collect::<String>(),
        "expected_stdout_len": expected.len(),
        "reference": reference.iter().map(|r| match r { Ok(b) => format!("Ok({} bytes)", b.len()), Err(e) => format!("Err({})", e.lines().next().unwrap_or("")) }).collect::<Vec<_>>(),
    });
    let mut fail = |o: &str, d: String| fails.push((o.to_string(), sig.clone(), d));
    if fscontext_differs {
        fail(
            "wrong_resolution_order",
            format!(
                "FsContext::for_path + push_path does not give what the documented search gives (input's directory, then --load-path): {:?} vs {:?}",
                own.iter().map(|r| match r { Ok(b) => format!("Ok({} bytes)", b.len()), Err(e) => format!("Err({})", e.lines().next().unwrap_or("")) }).collect::<Vec<_>>(),
                reference.iter().map(|r| match r { Ok(b) => format!("Ok({} bytes)", b.len()), Err(e) => format!("Err({})", e.lines().next().unwrap_or("")) }).collect::<Vec<_>>()
            ),
        );
    }
    if out.timed_out {
        fail("cli_hang", "the rsass process did not exit within 60 s".into());
        return (fails, observed);
    }
    if out.signal.is_some() || out.code.is_some_and(|c| c > 2 && c != 101) {
        fail("cli_crash", format!("the rsass process died: code {:?} signal {:?}; stderr: {}", out.code, out.signal, stderr_text.chars().take(200).collect::<String>()));
    }
    if out.code == Some(101) {
        fail("cli_panic", format!("the rsass process panicked: {}", stderr_text.chars().take(300).collect::<String>()));
    }
    let delivered_all = out.stdout == expected;
    match case.stdout {
        StdoutKind::Normal | StdoutKind::Slow => {
            if !delivered_all {
                let is_prefix = expected.starts_with(&out.stdout);
                fail(
                    "stdout_differs_from_library",
                    format!(
                        "stdout ({} bytes{}) is not the concatenation of the library's output for the inputs ({} bytes)\n--- cli:\n{}\n--- library:\n{}",
                        out.stdout.len(),
                        if is_prefix { ", a strict prefix" } else { "" },
                        expected.len(),
                        String::from_utf8_lossy(&out.stdout).chars().take(500).collect::<String>(),
                        String::from_utf8_lossy(&expected).chars().take(500).collect::<String>()
                    ),
                );
            }
            if all_ok && !status_ok {
                fail("failure_status_but_all_compile", format!("all inputs compile through the library but the exit status is {:?}; stderr: {}", out.code, stderr_text.chars().take(200).collect::<String>()));
            }
            if !all_ok && status_ok {
                fail("success_status_but_input_fails", format!("an input fails through the library ({}) but the exit status is 0", reference.last().and_then(|r| r.as_ref().err()).map_or("", |e| e.lines().next().unwrap_or(""))));
            }
        }
        StdoutKind::NonBlock | StdoutKind::FileLimit => {
            // small outputs fit; larger ones meet a short write and then an error
            if delivered_all {
                stats.inc("probe:stdout_limit_not_reached");
                if all_ok && !status_ok {
                    fail("failure_status_but_all_compile", format!("all css reached stdout but the exit status is {:?}; stderr: {}", out.code, stderr_text.chars().take(200).collect::<String>()));
                }
            } else {
                stats.inc("probe:stdout_short_write_hit");
                if status_ok {
                    fail(
                        "success_status_but_css_not_written",
                        format!("stdout accepted only {} of {} bytes ({:?}) but the exit status is 0", out.stdout.len(), expected.len(), case.stdout),
                    );
                }
                if !expected.starts_with(&out.stdout) {
                    fail("stdout_not_a_prefix", "bytes reached stdout that are not a prefix of the expected css".into());
                }
            }
            if !all_ok && status_ok {
                fail("success_status_but_input_fails", "an input fails through the library but the exit status is 0".into());
            }
        }
        StdoutKind::Full | StdoutKind::Epipe => {
            stats.inc("probe:stdout_fault_hit");
            if !expected.is_empty() && status_ok {
                fail(
                    "success_status_but_css_not_written",
                    format!("stdout could not accept the css ({:?}) but the exit status is 0", case.stdout),
                );
            }
            if !expected.starts_with(&out.stdout) {
                fail("stdout_not_a_prefix", "bytes reached stdout that are not a prefix of the expected css".into());
            }
        }
    }
    if !status_ok && !has_error_line {
        fail(
            "failure_without_error_message",
            format!("exit status {:?} but no line of stderr starts with `Error:`; stderr: {}", out.code, stderr_text.chars().take(200).collect::<String>()),
        );
    }
    // resolution order, independently of the library: the marker of the dependency
    if matches!(case.stdout, StdoutKind::Normal | StdoutKind::Slow) && status_ok {
        let text = String::from_utf8_lossy(&out.stdout);
        for (k, marker) in case.expect_dep_from.iter().enumerate() {
            if let Some(marker) = marker {
                let from = marker.rsplit('-').next().unwrap_or("");
                stats.inc(&format!("probe:dep_expected_from_{from}"));
                if !text.contains(marker.as_str()) {
                    fail(
                        "wrong_resolution_order",
                        format!("input {k} should load its dependency from the {from} copy (marker {marker}) but the output does not contain it"),
                    );
                }
            }
        }
    }
    if matches!(case.stdout, StdoutKind::Normal | StdoutKind::Slow) && status_ok {
        let text = String::from_utf8_lossy(&out.stdout);
        for m in &case.also_expect {
            stats.inc("probe:dependency_behind_blocker_file");
            if !text.contains(m.as_str()) {
                fail("wrong_resolution_order", format!("the output does not contain {m}: a dependency that exists in the --load-path was not loaded from there"));
            }
        }
    }
    // places the tool must not search, independently of the library (which shares FsLoader with the tool)
    {
        let text = String::from_utf8_lossy(&out.stdout);
        for m in &case.forbidden {
            stats.inc("probe:decoy_dependency_placed");
            if text.contains(m.as_str()) {
                fail(
                    "wrong_resolution_order",
                    format!("the output contains {m}: a dependency was loaded from a directory that is neither the input file's directory nor the --load-path"),
                );
            }
        }
        // (re-checked against the files as they are: the minimiser may have cut the load statement away)
        let unresolvable = case
            .unresolvable
            .iter()
            .zip(&case.inputs)
            .any(|(u, name)| *u && case.files.get(name).is_some_and(|t| t.contains("\"dep")));
        if unresolvable {
            stats.inc("probe:dependency_only_in_decoy_place");
            if status_ok {
                fail(
                    "success_status_but_input_fails",
                    "an input's dependency exists neither in its directory nor in the --load-path (only in a directory that must not be searched), but the exit status is 0".into(),
                );
            }
        }
    }
    if !expected.is_empty() && expected.len() > 65536 {
        stats.inc("probe:output_larger_than_pipe_buffer");
    }
    if !all_ok {
        stats.inc("probe:failing_input");
    }
    if expected.iter().any(|b| *b >= 0x80) {
        stats.inc("probe:non_ascii_output");
    }
    (fails, observed)
}

// ------------------------------------------------------------------ generation

fn valid_source(rng: &mut Rng, k: usize, dep: Option<&str>) -> String {
    let mut s = String::new();
    if let Some(d) = dep {
        s.push_str(d);
    }
    match rng.below(9) {
        0 => s.push_str(&format!("a{k} {{ b: c; }}\n")),
        1 => s.push_str(&format!("@use \"sass:math\";\n$x: math.div(1, 3);\na{k} {{ w: $x; v: math.div(22, 7) * 1px; u: 0.1 + 0.2; }}\n")),
        2 => s.push_str(&format!("a{k} {{ content: \"\u{e5}\u{e4}\u{f6} \u{2603}\"; }}\n")),
        3 => s.push_str(&format!("$unused{k}: 1;\n// nothing to see\n")),
        4 => s.push_str(&format!("a{k} {{ b {{ c: d; &:hover {{ e: f; }} }} }}\n/* comment {k} */\n@media screen {{ g {{ h: i; }} }}\n")),
        5 => s.push_str(&format!("@for $i from 1 through {} {{ .c{k}-#{{$i}} {{ w: $i * 1.5px; }} }}\n", 100 + rng.usize(400))),
        6 => s.push_str(&format!("@for $i from 1 through 4000 {{ .big{k}-#{{$i}} {{ width: $i * 1px; }} }}\n")),
        7 => s.push_str(&format!("@use \"sass:color\";\na{k} {{ c: color.mix(#123456, #abcdef, 33%); d: rgba(1, 2, 3, 0.123456789); }}\n")),
        _ => s.push_str(&format!("@mixin m{k}($a) {{ x: $a; }}\na{k} {{ @include m{k}(1 2 3); y: 1e-7 + 1; z: 10 / 4; }}\n")),
    }
    s
}

fn failing_source(rng: &mut Rng, k: usize) -> String {
    match rng.below(5) {
        0 => format!("a{k} {{ b: ; c }}}}\n"),
        1 => format!("a{k} {{ b: c; }}\n@error \"stop {k}\";\n"),
        2 => format!("a{k} {{ b: $undefined{k}; }}\n"),
        3 => format!("@import \"no-such-file-{k}\";\na{k} {{ b: c; }}\n"),
        _ => format!("@use \"no-such-module-{k}\";\n"),
    }
}

pub fn gen_case(rng: &mut Rng) -> Case {
    let mut files = BTreeMap::new();
    let mut dirs = vec![];
    let mut inputs = vec![];
    let mut expect_dep_from = vec![];
    let mut forbidden = vec![];
    let mut also_expect: Vec<String> = vec![];
    let mut unresolvable = vec![];
    let load_path = if rng.chance(1, 2) { Some(rng.pick(&["lp", "inc/lp"]).to_string()) } else { None };
    if let Some(lp) = &load_path {
        dirs.push(lp.clone());
    }
    let n = 1 + rng.usize(3);
    // most invocations consist of inputs that all compile
    let allow_fail = rng.chance(2, 5);
    for k in 0..n {
        let dir = *rng.pick(&["", "", "sub", "sub/deeper", ".", "./sub"]);
        let join = |d: &str, f: &str| if d.is_empty() { f.to_string() } else { format!("{d}/{f}") };
        let mut expect = None;
        let mut unres = false;
        match if allow_fail { rng.below(12) } else { 5 + rng.below(7) } {
            0 => {
                // missing path
                inputs.push(join(dir, &format!("missing{k}.scss")));
            }
            1 => {
                // a directory
                let d = join(dir, &format!("adir{k}.scss"));
                dirs.push(d.clone());
                inputs.push(d);
            }
            2 => {
                // no known extension
                let p = join(dir, &format!("noext{k}"));
                files.insert(p.clone(), format!("a{k} {{ b: c; }}\n"));
                inputs.push(p);
            }
            3 | 4 => {
                let p = join(dir, &format!("bad{k}.scss"));
                files.insert(p.clone(), failing_source(rng, k));
                inputs.push(p);
            }
            5 => {
                // plain css input
                let p = join(dir, &format!("plain{k}.css"));
                files.insert(p.clone(), format!("a{k} {{ margin: 1.333333333em 0; }}\n"));
                inputs.push(p);
            }
            _ => {
                // valid, possibly with a dependency placed in the input's directory, the load path, both or neither.
                // Sometimes the file is NAMED like the first input and lives in another directory: two inputs
                // that differ only in their directory are two inputs
                let same_name_dir = if k >= 1 && inputs.first().is_some_and(|f| f.ends_with(".scss")) && rng.chance(1, 4) { Some(format!("twin{k}")) } else { None };
                let dir: &str = match &same_name_dir {
                    Some(d) => d.as_str(),
                    None => dir,
                };
                let p = match (&same_name_dir, inputs.first()) {
                    (Some(d), Some(first)) => join(d, first.rsplit('/').next().unwrap_or("in0.scss")),
                    _ => join(dir, &format!("in{k}.scss")),
                };
                let mut pre: Option<String> = None;
                let dep = if rng.chance(1, 2) {
                    let how = *rng.pick(&["@import \"dep{k}\";\n", "@use \"dep{k}\";\n", "@use \"dep{k}\" as d;\n"]);
                    let mut stmt = how.replace("{k}", &k.to_string());
                    // the same file loaded twice by one input (what a loader hands out for a url must be a
                    // fresh view of the file every time)
                    if stmt.starts_with("@import") && rng.chance(1, 3) {
                        stmt = format!("{stmt}{stmt}");
                    }
                    let in_dir = rng.chance(2, 3);
                    let in_lp = load_path.is_some() && rng.chance(2, 3);
                    let partial = rng.chance(1, 2);
                    let fname = if partial { format!("_dep{k}.scss") } else { format!("dep{k}.scss") };
                    if in_dir {
                        files.insert(join(dir, &fname), format!("d{k} {{ from: dep{k}-from-dir; }}\n"));
                    }
                    if in_lp {
                        files.insert(join(load_path.as_ref().unwrap(), &fname), format!("d{k} {{ from: dep{k}-from-lp; }}\n"));
                    }
                    // decoys where the tool must not look: the cwd (input in a sub-directory) and
                    // the load path taken relative to the input's directory
                    let in_subdir = !matches!(dir, "" | ".");
                    let mut decoy = false;
                    if in_subdir && rng.chance(1, 2) {
                        files.insert(fname.clone(), format!("d{k} {{ from: dep{k}-from-cwd; }}\n"));
                        forbidden.push(format!("dep{k}-from-cwd"));
                        decoy = true;
                    }
                    if in_subdir && load_path.is_some() && rng.chance(1, 3) {
                        files.insert(
                            join(&join(dir, load_path.as_ref().unwrap()), &fname),
                            format!("d{k} {{ from: dep{k}-from-inputdir-lp; }}\n"),
                        );
                        forbidden.push(format!("dep{k}-from-inputdir-lp"));
                        decoy = true;
                    }
                    // `<input dir>/<input dir>`: where a dependency would be looked for if the root were named
                    // by its full path while the loader's base already is its directory
                    if in_subdir && rng.chance(1, 3) {
                        let d = dir.trim_start_matches("./");
                        files.insert(join(&join(dir, d), &fname), format!("d{k} {{ from: dep{k}-from-nested; }}\n"));
                        forbidden.push(format!("dep{k}-from-nested"));
                        decoy = true;
                    }
                    if decoy && !in_dir && !in_lp {
                        unres = true;
                    }
                    // an earlier load that is found ONLY in the load path: where it was found must not
                    // influence where the next one is looked for
                    if in_dir && in_lp && rng.chance(1, 2) {
                        files.insert(join(load_path.as_ref().unwrap(), &format!("_pre{k}.scss")), format!("e{k} {{ from: pre{k}-from-lp; }}\n"));
                        pre = Some(format!("@use \"pre{k}\";\n"));
                    }
                    expect = if in_dir {
                        Some(format!("dep{k}-from-dir"))
                    } else if in_lp {
                        Some(format!("dep{k}-from-lp"))
                    } else {
                        None
                    };
                    Some(stmt)
                } else {
                    None
                };
                let mut dep = match (pre, dep) {
                    (Some(a), Some(b)) => Some(format!("{a}{b}")),
                    (_, d) => d,
                };
                // a url with a directory part whose first component exists next to the input as a plain
                // FILE: looking there fails with ENOTDIR, and the search must still go on to the load path
                if let (Some(lp), true) = (&load_path, rng.chance(1, 4)) {
                    files.insert(join(lp, &format!("pkg{k}/_part{k}.scss")), format!("e{k} {{ from: part{k}-from-lp; }}\n"));
                    files.insert(join(dir, &format!("pkg{k}")), "a plain file, not a directory\n".to_string());
                    dep = Some(format!("@use \"pkg{k}/part{k}\";\n{}", dep.unwrap_or_default()));
                    also_expect.push(format!("part{k}-from-lp"));
                }
                files.insert(p.clone(), valid_source(rng, k, dep.as_deref()));
                inputs.push(p);
            }
        }
        expect_dep_from.push(expect);
        unresolvable.push(unres);
    }
    // argument order is not name order: rotate / reverse the inputs, and sometimes name one twice
    if inputs.len() > 1 {
        match rng.below(4) {
            0 => {
                inputs.reverse();
                expect_dep_from.reverse();
                unresolvable.reverse();
            }
            1 => {
                inputs.rotate_left(1);
                expect_dep_from.rotate_left(1);
                unresolvable.rotate_left(1);
            }
            _ => {}
        }
    }
    if inputs.len() < 3 && rng.chance(1, 6) {
        let k = rng.usize(inputs.len());
        inputs.push(inputs[k].clone());
        expect_dep_from.push(expect_dep_from[k].clone());
        unresolvable.push(unresolvable[k]);
    }
    // a dependency marker is only expected if every earlier input compiles; the
    // judge only looks at markers when the status is 0, which implies that.
    Case {
        files,
        dirs,
        inputs,
        style: match rng.below(3) {
            0 => None,
            1 => Some("expanded".into()),
            _ => Some("compressed".into()),
        },
        style_short_flag: rng.chance(1, 2),
        precision: if rng.chance(1, 3) { None } else { Some(rng.usize(13)) },
        load_path,
        stdout: match rng.below(10) {
            0 | 1 => StdoutKind::Full,
            2 | 3 => StdoutKind::Epipe,
            4 => StdoutKind::Slow,
            5 => StdoutKind::NonBlock,
            6 => StdoutKind::FileLimit,
            _ => StdoutKind::Normal,
        },
        stdout_limit: *rng.pick(&[1u64, 100, 4096, 40_960, 1_000_000]),
        expect_dep_from,
        forbidden,
        unresolvable,
        also_expect,
        argv_form: if rng.chance(1, 2) { 0 } else { rng.below(8) as u8 },
    }
}

fn to_violations(case: &Case, fails: Vec<(String, String, String)>, observed: &Json) -> Vec<Violation> {
    fails
        .into_iter()
        .map(|(oracle, signature, detail)| {
            let mut cj = serde_json::to_value(case).unwrap();
            cj["observed"] = observed.clone();
            Violation {
                property: "C40".into(),
                oracle,
                signature,
                detail,
                case: cj,
                seed: 0,
                index: 0,
                minimised: false,
                shrink_steps: 0,
            }
        })
        .collect()
}

impl Prop for C40 {
    fn id(&self) -> &'static str {
        "C40"
    }
    fn level(&self) -> &'static str {
        "exploration"
    }
    fn runs(&self, tier: Tier) -> u64 {
        match tier {
            Tier::Quick => 1_200,
            Tier::Thorough => 60_000,
        }
    }
    fn max_workers(&self) -> Option<usize> {
        Some(4)
    }
    fn run(&self, seed: u64, index: u64, _tier: Tier, stats: &mut Stats) -> Vec<Violation> {
        let mut rng = Rng::new(seed);
        let case = gen_case(&mut rng);
        stats.inc("runs");
        stats.inc(&format!("stratum:inputs={}", case.inputs.len()));
        stats.inc(&format!("stratum:stdout={:?}", case.stdout));
        let (fails, observed) = judge(&case, &format!("r{index}"), stats);
        let mut d = vcommon::Digest::new();
        d.str(&serde_json::to_string(&case).unwrap());
        stats.nontrivial(d.finish());
        stats.sample(4, || json!({"seed": vcommon::hex(seed), "index": index, "case": case, "observed": observed}));
        to_violations(&case, fails, &observed)
    }
    fn replay(&self, case: &Json, stats: &mut Stats) -> Vec<Violation> {
        let Ok(case) = serde_json::from_value::<Case>(case.clone()) else {
            return vec![];
        };
        let (fails, observed) = judge(&case, "replay", stats);
        to_violations(&case, fails, &observed)
    }
    fn shrink_candidates(&self, case: &Json) -> Vec<Json> {
        let Ok(case) = serde_json::from_value::<Case>(case.clone()) else {
            return vec![];
        };
        let mut out = vec![];
        let push = |c: Case, out: &mut Vec<Json>| out.push(serde_json::to_value(c).unwrap());
        for k in 0..case.inputs.len() {
            if case.inputs.len() > 1 {
                let mut c = case.clone();
                c.inputs.remove(k);
                c.expect_dep_from.remove(k);
                if k < c.unresolvable.len() {
                    c.unresolvable.remove(k);
                }
                push(c, &mut out);
            }
        }
        for f in case.files.keys() {
            if !case.inputs.contains(f) {
                let mut c = case.clone();
                c.files.remove(f);
                push(c, &mut out);
            }
        }
        if case.argv_form != 0 {
            let mut c = case.clone();
            c.argv_form = 0;
            push(c, &mut out);
        }
        if case.style.is_some() {
            let mut c = case.clone();
            c.style = None;
            push(c, &mut out);
        }
        if case.precision.is_some() {
            let mut c = case.clone();
            c.precision = None;
            push(c, &mut out);
        }
        if case.load_path.is_some() && case.expect_dep_from.iter().all(|e| !e.as_deref().is_some_and(|m| m.ends_with("-lp"))) {
            let mut c = case.clone();
            c.load_path = None;
            push(c, &mut out);
        }
        if case.stdout == StdoutKind::Slow {
            let mut c = case.clone();
            c.stdout = StdoutKind::Normal;
            push(c, &mut out);
        }
        // shorten file contents line by line
        for (f, text) in &case.files {
            let lines: Vec<&str> = text.lines().collect();
            if lines.len() > 1 {
                for k in 0..lines.len() {
                    let mut l2 = lines.clone();
                    l2.remove(k);
                    let mut c = case.clone();
                    c.files.insert(f.clone(), l2.join("\n") + "\n");
                    push(c, &mut out);
                }
            }
        }
        out
    }
    fn evidence_extra(&self, stats: &Stats) -> Json {
        json!({
            "logical_steps": stats.c.get("cli_processes"),
            "logical_steps_unit": "rsass child processes run to completion",
            "simulated_time_note": "the CLI never reads a clock; time is reported as child processes",
            "components": {
                "real": ["the rsass binary built from /repo's rsass-cli (clap, FsLoader, real kernel file system, real pipes, /dev/full)", "library reference through FsContext in the harness process"],
                "stub": [],
                "harness_controlled": ["argv, cwd, empty environment, the file layout, what fd 1 is (drained pipe / 4 KiB pipe read bytewise / /dev/full / pipe with closed read end)"],
            },
        })
    }
    fn rule(&self) -> String {
        "One run = one invocation of the real rsass binary on a generated scratch directory: 1-3 inputs (valid stylesheets incl. non-ASCII, empty-output, >64 KiB output and precision-sensitive ones; failing ones; missing paths, directories, unknown extensions, plain css) in the cwd or sub-directories, --style/-t both values or default, --precision 0-12 or default, optional -I with the dependency in the input's directory, the load path, both or neither; fd 1 is a drained pipe, a 4 KiB pipe read one byte at a time, /dev/full or a pipe nobody reads. Compared with the library called in-process on the same directory. Non-trivial = every run; distinct = distinct generated cases.".into()
    }
    fn assumptions(&self) -> Vec<String> {
        vec![
            "the library reference uses the same FsContext API the CLI uses; resolution order is additionally checked through markers in the dependency files".into(),
            "a closed fd 1 is not a fault kind: Rust's std silently discards writes to a closed standard stream".into(),
            "exit status 0 is read as the acknowledgement that all css reached stdout".into(),
        ]
    }
    fn sanity(&self, stats: &Stats, _tier: Tier) -> Vec<String> {
        let mut e = vec![];
        if stats.c.get("runs") >= 500 {
            for p in ["probe:stdout_fault_hit", "probe:failing_input", "probe:non_ascii_output", "probe:output_larger_than_pipe_buffer", "probe:dep_expected_from_dir", "probe:dep_expected_from_lp", "fired:stdout_Full", "fired:stdout_Epipe", "fired:stdout_Slow"] {
                if stats.c.get(p) == 0 {
                    e.push(format!("{p} stuck at zero"));
                }
            }
        }
        e
    }
}
