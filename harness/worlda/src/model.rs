//! Reference executor for generated load graphs over canonical file identity.

use crate::spec::*;

#[derive(Clone, Copy, Debug, PartialEq, Eq)]
pub enum Verdict {
    Ok,
    Loop,
    /// more than the cap of file executions; the graph is discarded
    TooBig,
}

pub struct ModelRun {
    pub verdict: Verdict,
    /// number of load statements executed
    pub loads: u64,
    /// (importer, target, kind) of the load that closed the loop
    pub closing: Option<(usize, usize, LoadKind)>,
    /// kinds of the edges on the in-progress path from the loop target to the closing load
    pub cycle_kinds: Vec<LoadKind>,
    /// whether the url of some edge on the cycle is not in canonical spelling
    pub cycle_alias: bool,
}

pub const CAP: u64 = 2000;

struct Exec<'a> {
    g: &'a GraphSpec,
    cache_modules: bool,
    /// do not stop at a load of a file in progress: count it and go on (work bound over ANY order in
    /// which the loads of a file may really be executed, e.g. @use/@forward hoisted before the body)
    past_loops: bool,
    cap: u64,
    in_progress: Vec<(usize, Option<(LoadKind, bool)>)>,
    loaded: Vec<bool>,
    loads: u64,
    closing: Option<(usize, usize, LoadKind)>,
    cycle_kinds: Vec<LoadKind>,
    cycle_alias: bool,
}

pub fn is_canonical_spelling(url: &str) -> bool {
    !url.split('/').any(|c| c == "." || c == "..")
}

impl Exec<'_> {
    /// One load of `target` from `file`; `None` = done, go on.
    fn do_load(&mut self, file: usize, kind: LoadKind, target: usize, alias: bool) -> Option<Verdict> {
        self.loads += 1;
        if self.loads > self.cap {
            return Some(Verdict::TooBig);
        }
        if let Some(pos) = self.in_progress.iter().position(|(f, _)| *f == target) {
            self.closing = Some((file, target, kind));
            self.cycle_kinds = self.in_progress[pos + 1..].iter().filter_map(|(_, k)| k.map(|k| k.0)).collect();
            self.cycle_kinds.push(kind);
            self.cycle_alias = alias || self.in_progress[pos + 1..].iter().any(|(_, k)| k.is_some_and(|k| k.1));
            if self.past_loops {
                return None;
            }
            return Some(Verdict::Loop);
        }
        if kind.is_module() && self.cache_modules && self.loaded[target] {
            return None;
        }
        self.in_progress.push((target, Some((kind, alias))));
        let v = self.exec(target);
        if v != Verdict::Ok {
            return Some(v);
        }
        self.in_progress.pop();
        if kind.is_module() {
            self.loaded[target] = true;
        }
        None
    }

    fn exec(&mut self, file: usize) -> Verdict {
        for s in &self.g.files[file].stmts {
            match s {
                Stmt::Load { kind, target, url, wrap, .. } => {
                    let times = if *wrap == Wrap::Each { 2 } else { 1 };
                    for _ in 0..times {
                        if let Some(v) = self.do_load(file, *kind, *target, !is_canonical_spelling(url)) {
                            return v;
                        }
                    }
                }
                // the mixin was defined in `lib`, but the load it performs runs on THIS file's load stack
                Stmt::CallMixin { lib, id, .. } => {
                    if let Some((target, url)) = self.g.mixin_def(*lib, *id) {
                        if let Some(v) = self.do_load(file, LoadKind::LoadCss, target, !is_canonical_spelling(url)) {
                            return v;
                        }
                    }
                }
                _ => {}
            }
        }
        Verdict::Ok
    }
}

/// Depth-first execution from the root.  With `cache_modules` a completed
/// `@use`/`@forward` target is skipped afterwards (what C03 demands); without
/// it every load executes (an upper bound on the work of any caching
/// strategy, used for the liveness budget).
pub fn run_model(g: &GraphSpec, cache_modules: bool) -> ModelRun {
    let mut e = Exec {
        g,
        cache_modules,
        past_loops: false,
        cap: CAP,
        in_progress: vec![(0, None)],
        loaded: vec![false; g.files.len()],
        loads: 0,
        closing: None,
        cycle_kinds: vec![],
        cycle_alias: false,
    };
    let verdict = e.exec(0);
    ModelRun {
        verdict,
        loads: e.loads,
        closing: e.closing,
        cycle_kinds: e.cycle_kinds,
        cycle_alias: e.cycle_alias,
    }
}

/// Number of loads of the uncached execution when a load of a file in progress is counted and
/// skipped instead of ending the run: an upper bound on the loads of any real execution up to its
/// first loop error, whatever the order in which a file's loads are executed.  `None` = above the cap.
pub fn work_bound(g: &GraphSpec) -> Option<u64> {
    let mut e = Exec {
        g,
        cache_modules: false,
        past_loops: true,
        cap: 10 * CAP,
        in_progress: vec![(0, None)],
        loaded: vec![false; g.files.len()],
        loads: 0,
        closing: None,
        cycle_kinds: vec![],
        cycle_alias: false,
    };
    match e.exec(0) {
        Verdict::TooBig => None,
        _ => Some(e.loads),
    }
}

/// Is a cycle reachable from the root?  (Independent of execution order and
/// of any caching of completed files — see DESIGN §4 C02.)
pub fn reachable_cycle(g: &GraphSpec) -> bool {
    // colours: 0 white, 1 grey, 2 black
    fn dfs(g: &GraphSpec, f: usize, col: &mut [u8]) -> bool {
        col[f] = 1;
        for s in &g.files[f].stmts {
            let target = match s {
                Stmt::Load { target, .. } => Some(*target),
                Stmt::CallMixin { lib, id, .. } => g.mixin_def(*lib, *id).map(|(t, _)| t),
                _ => None,
            };
            if let Some(target) = &target {
                match col[*target] {
                    1 => return true,
                    0 => {
                        if dfs(g, *target, col) {
                            return true;
                        }
                    }
                    _ => {}
                }
            }
        }
        col[f] = 2;
        false
    }
    let mut col = vec![0u8; g.files.len()];
    dfs(g, 0, &mut col)
}
