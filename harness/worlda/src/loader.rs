//! SimLoader: the fault-injecting implementation of rsass' public `Loader`
//! trait, the event history, and `run_job`, which compiles one root file
//! through the real rsass library under a given fault plan.

use crate::simfs::Store;
use rsass::input::{Context, LoadError, Loader, SourceFile, SourceName};
use rsass::output::{Format, Style};
use serde::{Deserialize, Serialize};
use std::cell::RefCell;
use std::collections::BTreeMap;
use std::io::{self, Read};
use std::panic::{catch_unwind, AssertUnwindSafe};
use std::rc::Rc;
use vcommon::{Counters, Digest, Rng};

#[derive(Clone, Copy, Debug, PartialEq, Eq, Serialize, Deserialize, PartialOrd, Ord)]
pub enum Kind {
    PermissionDenied,
    Other,
    TimedOut,
    Interrupted,
    InvalidData,
    UnexpectedEof,
    /// `find_file` returns `LoadError::UnknownFormat` (only for lookups).
    UnknownFormat,
    /// the file vanished (between `is_file()` and `open()`, or between lookup and read)
    NotFound,
    IsADirectory,
    NotADirectory,
    WouldBlock,
    BrokenPipe,
    ConnectionReset,
    ConnectionAborted,
    OutOfMemory,
    Unsupported,
    InvalidInput,
    WriteZero,
    StorageFull,
    ResourceBusy,
    AlreadyExists,
}

impl Kind {
    pub fn io(self) -> io::ErrorKind {
        use io::ErrorKind as E;
        match self {
            Kind::PermissionDenied => E::PermissionDenied,
            Kind::Other | Kind::UnknownFormat => E::Other,
            Kind::TimedOut => E::TimedOut,
            Kind::Interrupted => E::Interrupted,
            Kind::InvalidData => E::InvalidData,
            Kind::UnexpectedEof => E::UnexpectedEof,
            Kind::NotFound => E::NotFound,
            Kind::IsADirectory => E::IsADirectory,
            Kind::NotADirectory => E::NotADirectory,
            Kind::WouldBlock => E::WouldBlock,
            Kind::BrokenPipe => E::BrokenPipe,
            Kind::ConnectionReset => E::ConnectionReset,
            Kind::ConnectionAborted => E::ConnectionAborted,
            Kind::OutOfMemory => E::OutOfMemory,
            Kind::Unsupported => E::Unsupported,
            Kind::InvalidInput => E::InvalidInput,
            Kind::WriteZero => E::WriteZero,
            Kind::StorageFull => E::StorageFull,
            Kind::ResourceBusy => E::ResourceBusy,
            Kind::AlreadyExists => E::AlreadyExists,
        }
    }
    /// The kinds every index is always hit with ...
    pub const FIND: [Kind; 6] = [
        Kind::PermissionDenied,
        Kind::Other,
        Kind::TimedOut,
        Kind::Interrupted,
        Kind::NotFound,
        Kind::UnknownFormat,
    ];
    pub const READ: [Kind; 5] = [
        Kind::PermissionDenied,
        Kind::Other,
        Kind::NotFound,
        Kind::InvalidData,
        Kind::UnexpectedEof,
    ];
    pub const OPEN: [Kind; 5] =
        [Kind::NotFound, Kind::PermissionDenied, Kind::Other, Kind::Interrupted, Kind::TimedOut];
    /// ... and the long tail, of which every index gets two in rotation (an error path that singles
    /// out one `io::ErrorKind` is as likely to pick one of these).  `Interrupted` is not a read
    /// fault: `Read::read_to_end` retries it by contract (it is the benign EINTR of `Chunking`).
    pub const TAIL: [Kind; 14] = [
        Kind::InvalidData,
        Kind::UnexpectedEof,
        Kind::IsADirectory,
        Kind::NotADirectory,
        Kind::WouldBlock,
        Kind::BrokenPipe,
        Kind::ConnectionReset,
        Kind::ConnectionAborted,
        Kind::OutOfMemory,
        Kind::Unsupported,
        Kind::InvalidInput,
        Kind::WriteZero,
        Kind::StorageFull,
        Kind::ResourceBusy,
    ];
}

/// Hard faults, addressed by logical position so that benign chunking does
/// not move them: the n-th `find_file` call, the n-th opened file.
#[derive(Clone, Debug, Default, Serialize, Deserialize, PartialEq)]
pub struct FaultPlan {
    /// find index -> error kind
    pub finds: BTreeMap<u64, Kind>,
    /// hit index (0 = the root file) -> (kind, bytes delivered before the error)
    pub reads: BTreeMap<u64, (Kind, usize)>,
    /// (real loaders over SimFs only) index of the `File::open` call -> error kind: the open fails
    /// although the `is_file()` just before it said yes (file vanished, EMFILE, EACCES, ...)
    #[serde(default, skip_serializing_if = "BTreeMap::is_empty")]
    pub opens: BTreeMap<u64, Kind>,
}

impl FaultPlan {
    pub fn is_empty(&self) -> bool {
        self.finds.is_empty() && self.reads.is_empty() && self.opens.is_empty()
    }
    pub fn len(&self) -> usize {
        self.finds.len() + self.reads.len() + self.opens.len()
    }
}

/// Benign behaviour of the `Read` streams.
#[derive(Clone, Copy, Debug, Serialize, Deserialize, PartialEq)]
pub struct Chunking {
    /// 0 = deliver as much as asked; n = at most n bytes per call;
    pub max: usize,
    /// draw each chunk uniformly in 1..=max instead of exactly max
    pub random: bool,
    /// chance per 1000 `read` calls of returning `ErrorKind::Interrupted`
    pub eintr_permille: u32,
    pub seed: u64,
    /// a concurrent writer "touches" the files: every re-open of an .scss file after its first delivers
    /// the same stylesheet with one more silent comment at the end (other bytes, same meaning)
    #[serde(default)]
    pub touch_reopened: bool,
}

impl Chunking {
    pub const NONE: Chunking = Chunking { max: 0, random: false, eintr_permille: 0, seed: 0, touch_reopened: false };
    pub fn is_benign_noise(&self) -> bool {
        self.max != 0 || self.eintr_permille != 0 || self.touch_reopened
    }
    pub fn draw(rng: &mut Rng) -> Chunking {
        let max = *rng.pick(&[0usize, 1, 2, 7, 31, 4096]);
        Chunking {
            max,
            random: max > 1 && rng.chance(1, 2),
            eintr_permille: *rng.pick(&[0u32, 0, 50, 300]),
            seed: rng.next_u64(),
            touch_reopened: false,
        }
    }
    /// For workloads made of generated (always well-formed) files: also let a concurrent writer touch
    /// files between re-opens.  (Not for corpus inputs: a stylesheet that ends in a syntax error would
    /// quote the added comment in its error text.)
    pub fn draw_for_generated(rng: &mut Rng) -> Chunking {
        let mut c = Chunking::draw(rng);
        c.touch_reopened = rng.chance(1, 3);
        c
    }
}

#[derive(Clone, Debug, PartialEq, Serialize, Deserialize)]
pub enum FindRes {
    Hit { base: usize, canon: String },
    Miss,
    Err { kind: Kind, tag: String },
    Budget,
}

#[derive(Clone, Debug, PartialEq, Serialize, Deserialize)]
pub enum ReadRes {
    Eof,
    Err { kind: Kind, tag: String },
    /// stream dropped before EOF or error was seen
    Abandoned,
}

#[derive(Clone, Debug, PartialEq, Serialize, Deserialize)]
pub enum Event {
    Find { url: String, res: FindRes },
    /// (real loaders over SimFs) a `File::open` below the loader: index, path as given, outcome
    Open { idx: u64, path: String, res: FindRes },
    /// Summary of one stream, logged when it ends.
    Read { hit: u64, canon: String, bytes: usize, calls: u32, eintrs: u32, short: u32, res: ReadRes },
}

pub struct LoaderState {
    pub history: Vec<Event>,
    pub finds: u64,
    pub hits: u64,
    pub opens: u64,
    pub stats_calls: u64,
    /// how often each file has been opened (for `touch_reopened`)
    pub opened: BTreeMap<String, u32>,
    pub plan: FaultPlan,
    pub chunk: Chunking,
    rng: Rng,
    pub budget: u64,
    pub budget_hit: bool,
    /// tags of hard faults actually delivered, in order
    pub delivered: Vec<String>,
    pub fired: Counters,
}

impl LoaderState {
    pub fn new(plan: FaultPlan, chunk: Chunking, budget: u64) -> Self {
        LoaderState {
            history: vec![],
            finds: 0,
            hits: 0,
            opens: 0,
            stats_calls: 0,
            opened: BTreeMap::new(),
            plan,
            chunk,
            rng: Rng::new(chunk.seed),
            budget,
            budget_hit: false,
            delivered: vec![],
            fired: Counters::default(),
        }
    }
    fn open(st: &Rc<RefCell<LoaderState>>, canon: &str, data: Rc<Vec<u8>>) -> SimFile {
        let mut s = st.borrow_mut();
        let hit = s.hits;
        s.hits += 1;
        let nth = {
            let e = s.opened.entry(canon.to_string()).or_insert(0);
            *e += 1;
            *e
        };
        let data = if s.chunk.touch_reopened && nth > 1 && canon.ends_with(".scss") {
            s.fired.inc("TouchedBetweenOpens");
            let mut d = (*data).clone();
            d.extend_from_slice(format!("\n// touched {nth}\n").as_bytes());
            Rc::new(d)
        } else {
            data
        };
        let fault = s.plan.reads.get(&hit).copied();
        SimFile {
            data,
            pos: 0,
            canon: canon.to_string(),
            hit,
            fault,
            st: st.clone(),
            calls: 0,
            eintrs: 0,
            short: 0,
            consecutive_eintr: 0,
            done: false,
        }
    }
}

pub struct SimLoader {
    pub store: Rc<dyn Store>,
    pub st: Rc<RefCell<LoaderState>>,
}

impl std::fmt::Debug for SimLoader {
    fn fmt(&self, f: &mut std::fmt::Formatter<'_>) -> std::fmt::Result {
        f.write_str("SimLoader")
    }
}

impl Loader for SimLoader {
    type File = SimFile;
    fn find_file(&self, url: &str) -> Result<Option<SimFile>, LoadError> {
        let idx;
        {
            let mut s = self.st.borrow_mut();
            idx = s.finds;
            s.finds += 1;
            if s.finds > s.budget {
                s.budget_hit = true;
                s.history.push(Event::Find { url: url.to_string(), res: FindRes::Budget });
                return Err(LoadError::Input(
                    url.to_string(),
                    io::Error::new(io::ErrorKind::Other, "simbudget"),
                ));
            }
            if let Some(kind) = s.plan.finds.get(&idx).copied() {
                let tag = format!("simfault#f{idx}");
                s.delivered.push(tag.clone());
                s.fired.inc(&format!("FindErr:{kind:?}"));
                s.history.push(Event::Find {
                    url: url.to_string(),
                    res: FindRes::Err { kind, tag: tag.clone() },
                });
                return Err(match kind {
                    Kind::UnknownFormat => LoadError::UnknownFormat(format!("{url} {tag}")),
                    k => LoadError::Input(url.to_string(), io::Error::new(k.io(), tag)),
                });
            }
        }
        match self.store.lookup(url) {
            Some(found) => {
                self.st.borrow_mut().history.push(Event::Find {
                    url: url.to_string(),
                    res: FindRes::Hit { base: found.base, canon: found.canon.clone() },
                });
                Ok(Some(LoaderState::open(&self.st, &found.canon, found.data)))
            }
            None => {
                self.st
                    .borrow_mut()
                    .history
                    .push(Event::Find { url: url.to_string(), res: FindRes::Miss });
                Ok(None)
            }
        }
    }
}

pub struct SimFile {
    data: Rc<Vec<u8>>,
    pos: usize,
    canon: String,
    hit: u64,
    fault: Option<(Kind, usize)>,
    st: Rc<RefCell<LoaderState>>,
    calls: u32,
    eintrs: u32,
    short: u32,
    consecutive_eintr: u32,
    done: bool,
}

impl SimFile {
    fn finish(&mut self, res: ReadRes) {
        if self.done {
            return;
        }
        self.done = true;
        let ev = Event::Read {
            hit: self.hit,
            canon: self.canon.clone(),
            bytes: self.pos,
            calls: self.calls,
            eintrs: self.eintrs,
            short: self.short,
            res,
        };
        self.st.borrow_mut().history.push(ev);
    }
}

impl Read for SimFile {
    fn read(&mut self, buf: &mut [u8]) -> io::Result<usize> {
        if buf.is_empty() {
            return Ok(0);
        }
        self.calls += 1;
        let mut limit = self.data.len() - self.pos;
        if let Some((kind, after)) = self.fault {
            if self.pos >= after {
                let tag = format!("simfault#r{}", self.hit);
                {
                    let mut s = self.st.borrow_mut();
                    if !s.delivered.contains(&tag) {
                        s.delivered.push(tag.clone());
                        s.fired.inc(&format!("ReadErr:{kind:?}"));
                    }
                }
                self.finish(ReadRes::Err { kind, tag: tag.clone() });
                return Err(io::Error::new(kind.io(), tag));
            }
            limit = limit.min(after - self.pos);
        }
        let (max, random, eintr) = {
            let s = self.st.borrow();
            (s.chunk.max, s.chunk.random, s.chunk.eintr_permille)
        };
        if eintr > 0 && self.consecutive_eintr < 3 {
            let hit = self.st.borrow_mut().rng.below(1000) < u64::from(eintr);
            if hit {
                self.eintrs += 1;
                self.consecutive_eintr += 1;
                self.st.borrow_mut().fired.inc("Eintr");
                return Err(io::Error::new(io::ErrorKind::Interrupted, "simeintr"));
            }
        }
        self.consecutive_eintr = 0;
        let mut n = buf.len().min(limit);
        if max > 0 && n > 0 {
            let m = if random {
                1 + self.st.borrow_mut().rng.usize(max)
            } else {
                max
            };
            if m < n {
                n = m;
                self.short += 1;
                self.st.borrow_mut().fired.inc("ShortRead");
            }
        }
        if n == 0 {
            self.finish(ReadRes::Eof);
            return Ok(0);
        }
        buf[..n].copy_from_slice(&self.data[self.pos..self.pos + n]);
        self.pos += n;
        Ok(n)
    }
}

impl Drop for SimFile {
    fn drop(&mut self) {
        self.finish(ReadRes::Abandoned);
    }
}

#[derive(Clone, Copy, Debug, PartialEq, Eq, Serialize, Deserialize)]
pub struct Fmt {
    pub compressed: bool,
    pub precision: usize,
}

impl Default for Fmt {
    fn default() -> Self {
        Fmt { compressed: false, precision: 10 }
    }
}

impl Fmt {
    pub fn format(self) -> Format {
        Format {
            style: if self.compressed { Style::Compressed } else { Style::Expanded },
            precision: self.precision,
        }
    }
    pub fn draw(rng: &mut Rng) -> Fmt {
        Fmt {
            compressed: rng.chance(1, 2),
            precision: if rng.chance(1, 2) { 10 } else { rng.usize(21) },
        }
    }
}

#[derive(Clone, Copy, Debug, PartialEq, Eq, Serialize, Deserialize)]
pub enum ErrClass {
    Input,
    Io,
    BadCall,
    ImportLoop,
    Parse,
    Invalid,
    S,
}

#[derive(Clone, Debug, PartialEq, Serialize, Deserialize)]
pub enum Res {
    Ok(String),
    Err { class: ErrClass, text: String },
    Panic(String),
}

impl Res {
    pub fn is_ok(&self) -> bool {
        matches!(self, Res::Ok(_))
    }
    pub fn is_loop(&self) -> bool {
        match self {
            Res::Err { class: ErrClass::ImportLoop, .. } => true,
            // A loop detected below a mixin call is re-wrapped as BadCall with
            // the loop error's text as message (output/transform.rs MixinCall).
            Res::Err { class: ErrClass::BadCall, text } => {
                text.contains("already being loaded")
            }
            _ => false,
        }
    }
    pub fn short(&self) -> String {
        match self {
            Res::Ok(s) => format!("Ok({} bytes)", s.len()),
            Res::Err { class, text } => {
                format!("Err({class:?}: {})", text.lines().next().unwrap_or(""))
            }
            Res::Panic(m) => format!("Panic({m})"),
        }
    }
    pub fn digest(&self, d: &mut Digest) {
        match self {
            Res::Ok(s) => d.str("ok").str(s),
            Res::Err { class, text } => d.str("err").str(&format!("{class:?}")).str(text),
            Res::Panic(m) => d.str("panic").str(m),
        };
    }
}

pub struct Outcome {
    pub res: Res,
    pub history: Vec<Event>,
    pub delivered: Vec<String>,
    pub budget_hit: bool,
    pub fired: Counters,
    pub finds: u64,
    pub hits: u64,
    /// `File::open` calls below a real loader (0 for the stub)
    pub opens: u64,
}

impl Outcome {
    pub fn history_digest(&self) -> u64 {
        let mut d = Digest::new();
        for e in &self.history {
            match e {
                Event::Find { url, res } => {
                    d.str("F").str(url).str(&format!("{res:?}"));
                }
                Event::Open { idx, path, res } => {
                    d.str("O").u64(*idx).str(path).str(&format!("{res:?}"));
                }
                Event::Read { hit, canon, bytes, res, .. } => {
                    d.str("R").u64(*hit).str(canon).u64(*bytes as u64).str(&format!("{res:?}"));
                }
            }
        }
        self.res.digest(&mut d);
        d.finish()
    }
    /// Like `history_digest`, but with unique-id() values (which embed the
    /// process id) normalised, so that it is a function of the seed alone.
    pub fn history_digest_stable(&self) -> u64 {
        let mut d = Digest::new();
        for e in &self.history {
            d.str(&format!("{e:?}"));
        }
        match &self.res {
            Res::Ok(s) => {
                d.str("ok").str(&crate::c03::normalise_ids(s));
            }
            r => r.digest(&mut d),
        }
        d.finish()
    }
    /// Canonical identities of the files opened, in order (root excluded).
    pub fn hit_sequence(&self) -> Vec<String> {
        self.history
            .iter()
            .filter_map(|e| match e {
                Event::Find { res: FindRes::Hit { canon, .. }, .. } => Some(canon.clone()),
                _ => None,
            })
            .collect()
    }
}

pub use vcommon::panichook::{install_panic_hook, last_panic};

pub fn classify(e: &rsass::Error) -> ErrClass {
    match e {
        rsass::Error::Input(_) => ErrClass::Input,
        rsass::Error::IoError(_) => ErrClass::Io,
        rsass::Error::BadCall(..) => ErrClass::BadCall,
        rsass::Error::ImportLoop(..) => ErrClass::ImportLoop,
        rsass::Error::ParseError(_) => ErrClass::Parse,
        rsass::Error::Invalid(..) => ErrClass::Invalid,
        rsass::Error::S(_) => ErrClass::S,
    }
}

/// One compilation through the real library.
pub struct Job<'a> {
    pub store: Rc<dyn Store>,
    /// name given to the root source (`SourceName::root`)
    pub root_name: &'a str,
    /// canonical identity of the root in the history
    pub root_canon: &'a str,
    pub root_data: Rc<Vec<u8>>,
    pub fmt: Fmt,
    pub plan: &'a FaultPlan,
    pub chunk: Chunking,
    pub budget: u64,
}

/// Set as soon as this process has compiled anything: from then on its
/// process-wide rsass state is no longer that of a fresh process.
pub static COMPILED_HERE: std::sync::atomic::AtomicBool = std::sync::atomic::AtomicBool::new(false);

pub fn run_job(job: &Job) -> Outcome {
    COMPILED_HERE.store(true, std::sync::atomic::Ordering::Relaxed);
    let st = Rc::new(RefCell::new(LoaderState::new(job.plan.clone(), job.chunk, job.budget)));
    let loader = SimLoader { store: job.store.clone(), st: st.clone() };
    let res = catch_unwind(AssertUnwindSafe(|| {
        // The root is read through the same fault layer (hit 0).
        let mut rootfile = LoaderState::open(&st, job.root_canon, job.root_data.clone());
        let file = SourceFile::read(&mut rootfile, SourceName::root(job.root_name));
        drop(rootfile);
        let r = match file {
            Err(e) => Err(rsass::Error::from(e)),
            Ok(file) => Context::for_loader(loader).with_format(job.fmt.format()).transform(file),
        };
        match r {
            Ok(bytes) => Res::Ok(String::from_utf8_lossy(&bytes).into_owned()),
            Err(e) => {
                let class = classify(&e);
                // rendering the error is part of the standing invariants
                Res::Err { class, text: e.to_string() }
            }
        }
    }));
    let res = match res {
        Ok(r) => r,
        Err(_) => Res::Panic(last_panic()),
    };
    let s = st.borrow();
    Outcome {
        res,
        history: s.history.clone(),
        delivered: s.delivered.clone(),
        budget_hit: s.budget_hit,
        fired: s.fired.clone(),
        finds: s.finds,
        hits: s.hits,
        opens: s.opens,
    }
}

// ---------------------------------------------------------------------------
// The REAL loaders of rsass (FsLoader, CargoLoader) over the simulated file
// system: rsass is built from the instrumented copy, in which `std::fs` and
// the path predicates go through `rsass_verif_fs`; installing `SimBackend`
// there makes every stat/open/read of the real loader code a simulator event.

#[derive(Clone, Copy, Debug, PartialEq, Eq, Serialize, Deserialize, Default)]
pub enum Via {
    /// the SimLoader stub (implements the `Loader` trait itself)
    #[default]
    Stub,
    /// `FsContext::for_path` + `push_path`: rsass' own FsLoader, file system simulated below it
    Fs,
    /// `CargoContext::for_path` + `push_path` (CARGO_MANIFEST_DIR = the simulated root directory)
    Cargo,
}

/// Absolute prefix under which the simulated tree appears to code that builds absolute paths.
pub const SIMROOT: &str = "/simroot";

struct SimBackend {
    fs: crate::simfs::SimFs,
    cwd: String,
    st: Rc<RefCell<LoaderState>>,
}

impl SimBackend {
    fn resolve(&self, path: &std::path::Path) -> Option<String> {
        let p = path.to_str()?;
        if let Some(rest) = p.strip_prefix(SIMROOT) {
            self.fs.resolve("", rest.trim_start_matches('/'))
        } else if p.starts_with('/') {
            None
        } else {
            self.fs.resolve(&self.cwd, p)
        }
    }
    fn dir(&self, path: &std::path::Path) -> Option<(String, String)> {
        let p = path.to_str()?;
        if let Some(rest) = p.strip_prefix(SIMROOT) {
            Some((String::new(), rest.trim_matches('/').to_string()))
        } else if p.starts_with('/') {
            None
        } else {
            Some((self.cwd.clone(), p.trim_end_matches('/').to_string()))
        }
    }
}

impl rsass_verif_fs::Backend for SimBackend {
    fn is_file(&self, path: &std::path::Path) -> bool {
        self.st.borrow_mut().stats_calls += 1;
        self.resolve(path).is_some()
    }
    fn is_dir(&self, path: &std::path::Path) -> bool {
        self.st.borrow_mut().stats_calls += 1;
        // a directory is what resolves as the parent of a would-be child
        match self.dir(path) {
            Some((base, rel)) if rel.is_empty() => self.fs.is_dir(&base),
            Some((base, rel)) => self.fs.resolve_dir(&base, &rel).is_some(),
            None => false,
        }
    }
    fn blocked_by_file(&self, path: &std::path::Path) -> bool {
        self.dir(path).is_some_and(|(base, rel)| self.fs.blocked_by_file(&base, &rel))
    }
    fn open(&self, path: &std::path::Path) -> io::Result<rsass_verif_fs::Opened> {
        let shown = path.display().to_string();
        let idx;
        {
            let mut s = self.st.borrow_mut();
            idx = s.opens;
            s.opens += 1;
            if let Some(kind) = s.plan.opens.get(&idx).copied() {
                let tag = format!("simfault#o{idx}");
                s.delivered.push(tag.clone());
                s.fired.inc(&format!("OpenErr:{kind:?}"));
                s.history.push(Event::Open { idx, path: shown, res: FindRes::Err { kind, tag: tag.clone() } });
                return Err(io::Error::new(kind.io(), tag));
            }
        }
        match self.resolve(path) {
            Some(canon) => {
                let data = self.fs.file(&canon).expect("resolved file");
                self.st.borrow_mut().history.push(Event::Open {
                    idx,
                    path: shown,
                    res: FindRes::Hit { base: 0, canon: canon.clone() },
                });
                let len = data.len() as u64;
                Ok(rsass_verif_fs::Opened { reader: Box::new(LoaderState::open(&self.st, &canon, data)), is_dir: false, len })
            }
            None => {
                // POSIX: open(2) of a directory succeeds read-only; the read fails with EISDIR
                let is_dir = self.dir(path).is_some_and(|(base, rel)| self.fs.resolve_dir(&base, &rel).is_some());
                self.st.borrow_mut().history.push(Event::Open { idx, path: shown, res: FindRes::Miss });
                if is_dir {
                    return Ok(rsass_verif_fs::Opened { reader: Box::new(DirHandle), is_dir: true, len: 4096 });
                }
                // a regular file where a directory is needed: ENOTDIR, not ENOENT
                let enotdir = self.dir(path).is_some_and(|(base, rel)| self.fs.blocked_by_file(&base, &rel));
                if enotdir {
                    return Err(io::Error::new(io::ErrorKind::NotADirectory, "Not a directory (simfs)"));
                }
                Err(io::Error::new(io::ErrorKind::NotFound, "No such file or directory (simfs)"))
            }
        }
    }
}

/// What `File::open` of a directory gives: a handle whose reads fail.
struct DirHandle;

impl Read for DirHandle {
    fn read(&mut self, _buf: &mut [u8]) -> io::Result<usize> {
        Err(io::Error::new(io::ErrorKind::IsADirectory, "Is a directory (simfs)"))
    }
}

/// Records `find_file` calls of any loader (and enforces the step budget) without changing them.
struct Recording<L: Loader> {
    inner: L,
    st: Rc<RefCell<LoaderState>>,
}

impl<L: Loader> std::fmt::Debug for Recording<L> {
    fn fmt(&self, f: &mut std::fmt::Formatter<'_>) -> std::fmt::Result {
        write!(f, "Recording({:?})", self.inner)
    }
}

impl<L: Loader> Loader for Recording<L> {
    type File = L::File;
    fn find_file(&self, url: &str) -> Result<Option<L::File>, LoadError> {
        {
            let mut s = self.st.borrow_mut();
            s.finds += 1;
            if s.finds > s.budget {
                s.budget_hit = true;
                s.history.push(Event::Find { url: url.to_string(), res: FindRes::Budget });
                return Err(LoadError::Input(url.to_string(), io::Error::new(io::ErrorKind::Other, "simbudget")));
            }
        }
        let r = self.inner.find_file(url);
        let res = match &r {
            Ok(Some(_)) => {
                let canon = self.st.borrow().history.iter().rev().find_map(|e| match e {
                    Event::Open { res: FindRes::Hit { canon, .. }, .. } => Some(canon.clone()),
                    _ => None,
                });
                FindRes::Hit { base: 0, canon: canon.unwrap_or_default() }
            }
            Ok(None) => FindRes::Miss,
            Err(e) => FindRes::Err { kind: Kind::Other, tag: e.to_string() },
        };
        self.st.borrow_mut().history.push(Event::Find { url: url.to_string(), res });
        r
    }
}

/// One compilation through rsass' own `FsLoader` / `CargoLoader`, over the simulated file system.
pub struct RealJob<'a> {
    pub fs: &'a crate::simfs::SimFs,
    /// bases[0] is the directory of the root file (the simulated cwd); the others are load paths
    pub bases: &'a [String],
    /// root file name relative to bases[0]
    pub root_rel: &'a str,
    pub fmt: Fmt,
    pub plan: &'a FaultPlan,
    pub chunk: Chunking,
    pub budget: u64,
    pub via: Via,
    /// open the root by a path WITH a directory part (`w/root.scss` from the parent of bases[0], as
    /// `rsass dir/file.scss` does) instead of from inside its directory
    pub root_with_dir: bool,
}

pub fn run_job_real(job: &RealJob) -> Outcome {
    use rsass::input::{CargoLoader, FsLoader};
    COMPILED_HERE.store(true, std::sync::atomic::Ordering::Relaxed);
    let st = Rc::new(RefCell::new(LoaderState::new(job.plan.clone(), job.chunk, job.budget)));
    // the simulated cwd: the root's base directory, or (root_with_dir) the top of the tree
    let with_dir = job.root_with_dir && !job.bases[0].is_empty();
    let cwd = if with_dir { String::new() } else { job.bases[0].clone() };
    let backend = Rc::new(SimBackend { fs: job.fs.clone(), cwd: cwd.clone(), st: st.clone() });
    let old = rsass_verif_fs::install(Some(backend));
    if job.via == Via::Cargo {
        // CargoLoader resolves relative paths against CARGO_MANIFEST_DIR: the simulated cwd
        std::env::set_var("CARGO_MANIFEST_DIR", format!("{SIMROOT}/{cwd}").trim_end_matches('/'));
    }
    let depth = cwd.split('/').filter(|c| !c.is_empty()).count();
    let up = "../".repeat(depth);
    let root_rel_owned = if with_dir { format!("{}/{}", job.bases[0], job.root_rel) } else { job.root_rel.to_string() };
    let job_root_rel: &str = &root_rel_owned;
    let res = catch_unwind(AssertUnwindSafe(|| {
        // the other constructors: `for_cwd()` / `for_crate()` with the root read by the caller - when the
        // root is opened from inside its directory, every other time (decided by the root's name length
        // plus the number of bases, i.e. by the case, not by a draw)
        let plain_ctor = !with_dir && (job.root_rel.len() + job.bases.len()) % 2 == 0 && !job.root_rel.contains('/');
        let read_root = |name: &str| -> Result<SourceFile, rsass::Error> {
            let mut f = rsass_verif_fs::File::open(name).map_err(|e| LoadError::Input(name.to_string(), e))?;
            Ok(SourceFile::read(&mut f, SourceName::root(job.root_rel))?)
        };
        let r: Result<Vec<u8>, rsass::Error> = match job.via {
            Via::Fs | Via::Stub if plain_ctor => read_root(job.root_rel).and_then(|file| {
                let mut loader = FsLoader::for_cwd();
                for b in &job.bases[1..] {
                    loader.push_path(format!("{up}{b}").as_ref());
                }
                Context::for_loader(Recording { inner: loader, st: st.clone() }).with_format(job.fmt.format()).transform(file)
            }),
            Via::Cargo if plain_ctor => CargoLoader::for_crate().map_err(rsass::Error::from).and_then(|mut loader| {
                for b in &job.bases[1..] {
                    loader.push_path(format!("{up}{b}").as_ref()).map_err(rsass::Error::from)?;
                }
                let file = read_root(&format!("{SIMROOT}/{cwd}/{}", job.root_rel))?;
                Context::for_loader(Recording { inner: loader, st: st.clone() }).with_format(job.fmt.format()).transform(file)
            }),
            Via::Fs | Via::Stub => FsLoader::for_path(std::path::Path::new(job_root_rel)).map_err(rsass::Error::from).and_then(
                |(mut loader, file)| {
                    for b in &job.bases[1..] {
                        loader.push_path(format!("{up}{b}").as_ref());
                    }
                    Context::for_loader(Recording { inner: loader, st: st.clone() })
                        .with_format(job.fmt.format())
                        .transform(file)
                },
            ),
            Via::Cargo => CargoLoader::for_path(std::path::Path::new(job_root_rel)).map_err(rsass::Error::from).and_then(
                |(mut loader, file)| {
                    for b in &job.bases[1..] {
                        loader.push_path(format!("{up}{b}").as_ref()).map_err(rsass::Error::from)?;
                    }
                    Context::for_loader(Recording { inner: loader, st: st.clone() })
                        .with_format(job.fmt.format())
                        .transform(file)
                },
            ),
        };
        match r {
            Ok(bytes) => Res::Ok(String::from_utf8_lossy(&bytes).into_owned()),
            Err(e) => Res::Err { class: classify(&e), text: e.to_string() },
        }
    }));
    rsass_verif_fs::install(old);
    let res = match res {
        Ok(r) => r,
        Err(_) => Res::Panic(last_panic()),
    };
    let s = st.borrow();
    Outcome {
        res,
        history: s.history.clone(),
        delivered: s.delivered.clone(),
        budget_hit: s.budget_hit,
        fired: s.fired.clone(),
        finds: s.finds,
        hits: s.hits,
        opens: s.opens,
    }
}
