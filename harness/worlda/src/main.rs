//! World A: deterministic simulation of rsass over the Loader seam.

mod c02;
mod c03;
mod c04;
mod c39;
mod c40;
mod c05h;
mod c06t;
mod core;
mod gen;
mod hist;
mod loader;
mod model;
mod resolve;
mod simfs;
mod spec;
mod xval;

use vcommon::core::Prop;

fn prop_by_id(id: &str) -> Option<Box<dyn Prop>> {
    match id {
        "C02" => Some(Box::new(c02::C02)),
        "C03" => Some(Box::new(c03::C03)),
        "C04" => Some(Box::new(c04::C04)),
        "C39" => Some(Box::new(c39::C39)),
        "C40" => Some(Box::new(c40::C40)),
        "C05" => Some(Box::new(c05h::C05H)),
        "C06" => Some(Box::new(c06t::C06T)),
        _ => None,
    }
}

fn main() {
    // rsass' CargoLoader resolves everything against CARGO_MANIFEST_DIR: the directory of the root
    // file inside the simulated tree (c04/c39 run it over SimFs; see loader::run_job_real)
    std::env::set_var("CARGO_MANIFEST_DIR", format!("{}/w", loader::SIMROOT));
    // All simulation work happens on a thread with a large stack so that deep
    // (but bounded) recursion in rsass is not mistaken for non-termination.
    vcommon::driver::run_main(prop_by_id, 1 << 30, hist::extra)
}
