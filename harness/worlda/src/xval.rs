//! Cross-validation of the stub: the same configuration materialised on the
//! real file system and compiled through the real `FsLoader`.

use crate::loader::{classify, Fmt, Res};
use crate::simfs::SimFs;
use rsass::input::{Context, FsLoader, SourceFile, SourceName};
use std::fs;
use std::path::PathBuf;

/// Compile `root_canon` (named `root_name` relative to `bases[0]`) with the
/// real loader: cwd = bases[0], load paths = the other bases.
pub fn real_result(fs_: &SimFs, bases: &[String], root_canon: &str, root_name: &str, fmt: Fmt, tag: &str) -> Res {
    real_result_renamed(fs_, bases, root_canon, root_name, fmt, tag, &|p| p.to_string())
}

/// Same, with the top-level directories given other names on the real file
/// system (`rename` maps a canonical path or base to the real one), so that
/// the search order of the loader cannot coincide with the sort order of the names.
pub fn real_result_renamed(
    fs_: &SimFs,
    bases: &[String],
    root_canon: &str,
    root_name: &str,
    fmt: Fmt,
    tag: &str,
    rename: &dyn Fn(&str) -> String,
) -> Res {
    let bases: Vec<String> = bases.iter().map(|b| rename(b)).collect();
    let bases = &bases[..];
    let root_canon = &rename(root_canon)[..];
    let dir = PathBuf::from(format!("{}/.scratch/xval/{}-{tag}", vcommon::verif_dir(), std::process::id()));
    let _ = fs::remove_dir_all(&dir);
    for d in fs_.dirs() {
        fs::create_dir_all(dir.join(rename(d))).expect("xval dir");
    }
    for (p, data) in fs_.files() {
        fs::write(dir.join(rename(p)), &**data).expect("xval file");
    }
    let old = std::env::current_dir().ok();
    std::env::set_current_dir(dir.join(&bases[0])).expect("xval chdir");
    let depth = bases[0].split('/').filter(|c| !c.is_empty()).count();
    let up = "../".repeat(depth);
    let mut loader = FsLoader::for_cwd();
    for b in &bases[1..] {
        loader.push_path(format!("{up}{b}").as_ref());
    }
    let rel_root = root_canon.strip_prefix(&format!("{}/", bases[0])).unwrap_or(root_canon);
    let res = match fs::File::open(rel_root) {
        Err(e) => Res::Panic(format!("xval open: {e}")),
        Ok(mut f) => match SourceFile::read(&mut f, SourceName::root(root_name)) {
            Err(e) => {
                let e = rsass::Error::from(e);
                Res::Err { class: classify(&e), text: e.to_string() }
            }
            Ok(src) => match Context::for_loader(loader).with_format(fmt.format()).transform(src) {
                Ok(b) => Res::Ok(String::from_utf8_lossy(&b).into_owned()),
                Err(e) => Res::Err { class: classify(&e), text: e.to_string() },
            },
        },
    };
    if let Some(o) = old {
        let _ = std::env::set_current_dir(o);
    }
    let _ = fs::remove_dir_all(&dir);
    res
}
