//! The generated load-graph sub-language: structured file specs, their
//! rendering to scss text, and the generator of equivalent URL spellings.

use crate::loader::Fmt;
use crate::simfs::SimFs;
use serde::{Deserialize, Serialize};
use vcommon::Rng;

#[derive(Clone, Copy, Debug, PartialEq, Eq, Serialize, Deserialize, PartialOrd, Ord, Hash)]
pub enum LoadKind {
    Use,
    Forward,
    Import,
    LoadCss,
}

impl LoadKind {
    pub fn is_module(self) -> bool {
        matches!(self, LoadKind::Use | LoadKind::Forward)
    }
    pub fn letter(self) -> char {
        match self {
            LoadKind::Use => 'U',
            LoadKind::Forward => 'F',
            LoadKind::Import => 'I',
            LoadKind::LoadCss => 'L',
        }
    }
}

#[derive(Clone, Copy, Debug, PartialEq, Eq, Serialize, Deserialize, Default)]
pub enum Wrap {
    #[default]
    None,
    /// inside a style rule
    Rule,
    /// inside `@if true { … }` (load-css only)
    If,
    /// inside a mixin that is then included (load-css only)
    Mixin,
    /// inside `@each $q in 1 2 { … }`: the load executes twice (load-css only)
    Each,
    /// inside `@media screen { … }`
    Media,
    /// inside a content block handed to a mixin: `@mixin c { @content; } @include c { … }` (load-css only)
    Content,
    /// inside a `@while` loop that runs once (load-css only)
    While,
}

#[derive(Clone, Debug, PartialEq, Serialize, Deserialize)]
pub enum Stmt {
    Load {
        kind: LoadKind,
        url: String,
        /// index of the file the url is meant to reach (model knowledge)
        target: usize,
        wrap: Wrap,
        /// namespace for `@use`
        ns: String,
        /// configure the target: `with ($cfg<t>: 1)` / `$with: (cfg<t>: 1)`
        #[serde(default)]
        with_cfg: bool,
        /// `@forward` only: 1 = `hide $zz<t>` (hides nothing), 2 = `show <every member that is visible
        /// anyway>` - both leave the meaning unchanged and take the filtered-forward code path
        #[serde(default)]
        filter: u8,
    },
    /// `m<i> { f: <i>; }`
    Marker,
    /// C03: `$id<i>: unique-id(); $v<i>: 0;` + marker printing the id
    ModuleVars,
    /// In a library file: `@mixin lm<id> { @include meta.load-css("<url>"); }` — defines, loads nothing.
    DefMixin { id: u32, url: String, target: usize },
    /// In a user of the library: `@include <ns>.lm<id>;` — the load runs on the CALLER's load stack,
    /// with the url resolved relative to the library file.
    CallMixin { ns: String, lib: usize, id: u32 },
    /// C03: `<ns>.$v<t>: <value>;` (optionally inside `@if true {}` or a mixin that is included)
    Assign {
        ns: String,
        target: usize,
        value: u32,
        #[serde(default)]
        wrap: Wrap,
        /// assign from INSIDE the module: `@include <ns>.bump<t>(<value>)`, where module t defines
        /// `@mixin bump<t>($x) { $v<t>: $x !global; }`
        #[serde(default)]
        by_mixin: bool,
    },
    /// C03: `u<j>-<k> { id: <ns>.$id<t>; v: <ns>.$v<t>; }`
    Probe { ns: String, target: usize, tag: u32 },
}

#[derive(Clone, Debug, PartialEq, Serialize, Deserialize)]
pub struct FileSpec {
    /// canonical path in the SimFs
    pub path: String,
    pub stmts: Vec<Stmt>,
}

#[derive(Clone, Debug, PartialEq, Serialize, Deserialize)]
pub struct GraphSpec {
    /// files[0] is the root
    pub files: Vec<FileSpec>,
    pub extra_dirs: Vec<String>,
    /// bases[0] is the directory the root name is relative to, the others are load paths
    pub bases: Vec<String>,
    pub fmt: Fmt,
    /// write adjacent unwrapped `@import`s as one statement: `@import "a", "b";`
    #[serde(default)]
    pub merge_imports: bool,
    /// file index -> text to use verbatim instead of rendering its statements (the statements still
    /// tell the model what the text loads): for files that must be byte-identical twins
    #[serde(default)]
    pub raw_text: std::collections::BTreeMap<usize, String>,
}

impl GraphSpec {
    pub fn needs_meta(f: &FileSpec) -> bool {
        f.stmts
            .iter()
            .any(|s| matches!(s, Stmt::Load { kind: LoadKind::LoadCss, .. } | Stmt::DefMixin { .. }))
    }

    pub fn render_file(&self, i: usize) -> String {
        if let Some(t) = self.raw_text.get(&i) {
            return t.clone();
        }
        let f = &self.files[i];
        let mut head = String::new();
        let mut body = String::new();
        if Self::needs_meta(f) {
            head.push_str("@use \"sass:meta\";\n");
        }
        for (k, s) in f.stmts.iter().enumerate() {
            match s {
                Stmt::Load { kind: LoadKind::Use, url, ns, with_cfg, target, .. } => {
                    if *with_cfg {
                        // (rsass does not parse `as <ns>` together with `with (...)`; that is a
                        // parser limitation outside the claimed properties, so the default namespace is used)
                        head.push_str(&format!("@use \"{url}\" with ($cfg{target}: 1);\n"));
                    } else if ns == "*" {
                        head.push_str(&format!("@use \"{url}\" as *;\n"));
                    } else if ns.is_empty() {
                        // default namespace: the last component of the url
                        head.push_str(&format!("@use \"{url}\";\n"));
                    } else {
                        head.push_str(&format!("@use \"{url}\" as {ns};\n"));
                    }
                }
                Stmt::Load { kind: LoadKind::Forward, url, with_cfg, target, filter, .. } => {
                    let w = if *with_cfg { format!(" with ($cfg{target}: 1)") } else { String::new() };
                    let flt = match (*with_cfg, *filter) {
                        (false, 3) => format!(" as q{target}-*"),
                        (false, 1) => format!(" hide $zz{target}"),
                        (false, 2) => {
                            let mut names = vec![];
                            for x in self.forward_closure(*target) {
                                // under the name the member has when seen from the forwarded module
                                let q = self.member_prefix(*target, x, 0).unwrap_or_default();
                                names.push(format!("${q}id{x}"));
                                names.push(format!("${q}v{x}"));
                                names.push(format!("{q}bump{x}"));
                            }
                            format!(" show {}", names.join(", "))
                        }
                        _ => String::new(),
                    };
                    head.push_str(&format!("@forward \"{url}\"{flt}{w};\n"));
                }
                Stmt::Load { kind: LoadKind::Import, url, wrap, .. } => match wrap {
                    Wrap::Rule => body.push_str(&format!("w{i}x{k} {{ @import \"{url}\"; }}\n")),
                    Wrap::Media => body.push_str(&format!("@media screen {{ @import \"{url}\"; }}\n")),
                    _ => {
                        let prev_is_plain_import = k > 0
                            && matches!(&f.stmts[k - 1], Stmt::Load { kind: LoadKind::Import, wrap: w, .. } if !matches!(*w, Wrap::Rule | Wrap::Media));
                        if self.merge_imports && prev_is_plain_import && body.ends_with("\";\n") {
                            body.truncate(body.len() - 2);
                            body.push_str(&format!(", \"{url}\";\n"));
                        } else {
                            body.push_str(&format!("@import \"{url}\";\n"));
                        }
                    }
                },
                Stmt::Load { kind: LoadKind::LoadCss, url, wrap, with_cfg, target, .. } => {
                    let call = if *with_cfg {
                        format!("@include meta.load-css(\"{url}\", $with: (cfg{target}: 1));")
                    } else {
                        format!("@include meta.load-css(\"{url}\");")
                    };
                    match wrap {
                        Wrap::None => body.push_str(&format!("{call}\n")),
                        Wrap::Rule => body.push_str(&format!("w{i}x{k} {{ {call} }}\n")),
                        Wrap::If => body.push_str(&format!("@if true {{ {call} }}\n")),
                        Wrap::Mixin => body.push_str(&format!(
                            "@mixin w{i}x{k} {{ {call} }}\n@include w{i}x{k};\n"
                        )),
                        Wrap::Each => body.push_str(&format!("@each $q{i}x{k} in 1 2 {{ {call} }}\n")),
                        Wrap::Media => body.push_str(&format!("@media screen {{ {call} }}\n")),
                        Wrap::Content => body.push_str(&format!(
                            "@mixin c{i}x{k} {{ @content; }}\n@include c{i}x{k} {{ {call} }}\n"
                        )),
                        Wrap::While => body.push_str(&format!(
                            "$n{i}x{k}: 1;\n@while $n{i}x{k} > 0 {{ {call} $n{i}x{k}: $n{i}x{k} - 1; }}\n"
                        )),
                    }
                }
                Stmt::DefMixin { id, url, .. } => {
                    body.push_str(&format!("@mixin lm{id} {{ @include meta.load-css(\"{url}\"); }}\n"));
                }
                Stmt::CallMixin { ns, id, .. } => {
                    body.push_str(&format!("@include {}lm{id};\n", self.ns_prefix_for(i, ns)));
                }
                Stmt::Marker => body.push_str(&format!("m{i} {{ f: {i}; }}\n")),
                Stmt::ModuleVars => {
                    body.push_str(&format!(
                        "$id{i}: unique-id();\n$v{i}: 0;\n@mixin bump{i}($x) {{ $v{i}: $x !global; }}\nm{i} {{ id: $id{i}; }}\n"
                    ));
                    // every other module also has members that Sass treats as private (`-`/`_` prefix)
                    if i % 2 == 1 {
                        body.push_str(&format!("$-p{i}: 1;\n$_q{i}: 2;\n@function -f{i}() {{ @return $-p{i} + $_q{i}; }}\n"));
                    }
                }
                Stmt::Assign { ns, target, value, by_mixin: true, .. } => {
                    let q = self.member_prefix_via(i, ns, *target);
                    body.push_str(&format!("@include {}{q}bump{target}({value});\n", self.ns_prefix(i, ns)));
                }
                Stmt::Assign { ns, target, value, wrap, .. } => {
                    let q = self.member_prefix_via(i, ns, *target);
                    let a = format!("{}${q}v{target}: {value};", self.ns_prefix(i, ns));
                    match wrap {
                        Wrap::If => body.push_str(&format!("@if true {{ {a} }}\n")),
                        Wrap::Mixin => body.push_str(&format!("@mixin a{i}x{k} {{ {a} }}\n@include a{i}x{k};\n")),
                        _ => body.push_str(&format!("{a}\n")),
                    }
                }
                Stmt::Probe { ns, target, tag } => {
                    let px = self.ns_prefix(i, ns);
                    let q = self.member_prefix_via(i, ns, *target);
                    body.push_str(&format!(
                        "u{i}-{tag}-t{target} {{ id: {px}${q}id{target}; v: {px}${q}v{target}; }}\n"
                    ));
                }
            }
        }
        // a configurable variable, so that loads may configure this file
        let cfg = if f.path.ends_with(".css") { String::new() } else { format!("$cfg{i}: 0 !default;\n") };
        head + &cfg + &body
    }

    /// How members are written through the `@use` of file `i` whose `ns` field is `ns`:
    /// `n3.` for a named namespace, nothing for `as *`, `<last url component>.` for the default one.
    pub fn ns_prefix(&self, i: usize, ns: &str) -> String {
        if ns == "*" {
            return String::new();
        }
        if ns.is_empty() {
            let url = self.files[i]
                .stmts
                .iter()
                .find_map(|s| match s {
                    Stmt::Load { kind: LoadKind::Use, ns: n, url, .. } if n.is_empty() => Some(url.as_str()),
                    _ => None,
                })
                .unwrap_or("");
            return format!("{}.", url.rsplit('/').next().unwrap_or(""));
        }
        format!("{ns}.")
    }

    /// The prefix that the members of module `target` carry when seen from module `from`
    /// (`@forward ... as q<t>-*` statements on the first forwarding path), "" if none.
    pub fn member_prefix(&self, from: usize, target: usize, depth: usize) -> Option<String> {
        if from == target {
            return Some(String::new());
        }
        if depth > 16 {
            return None;
        }
        for s in &self.files.get(from)?.stmts {
            if let Stmt::Load { kind: LoadKind::Forward, target: t, filter, with_cfg, .. } = s {
                if let Some(rest) = self.member_prefix(*t, target, depth + 1) {
                    let p = if *filter == 3 && !*with_cfg { format!("q{t}-") } else { String::new() };
                    return Some(format!("{p}{rest}"));
                }
            }
        }
        None
    }

    /// Same, from the module that namespace `ns` of file `i` stands for.
    pub fn member_prefix_via(&self, i: usize, ns: &str, target: usize) -> String {
        let nt = self.files[i].stmts.iter().find_map(|s| match s {
            Stmt::Load { kind: LoadKind::Use, ns: n, target: t, .. } if n == ns => Some(*t),
            _ => None,
        });
        nt.and_then(|nt| self.member_prefix(nt, target, 0)).unwrap_or_default()
    }

    /// File `t` and every file it forwards, transitively (what a user of `t` can see).
    pub fn forward_closure(&self, t: usize) -> Vec<usize> {
        let mut out = vec![t];
        let mut k = 0;
        while k < out.len() {
            let f = out[k];
            k += 1;
            if let Some(file) = self.files.get(f) {
                for s in &file.stmts {
                    if let Stmt::Load { kind: LoadKind::Forward, target, .. } = s {
                        if !out.contains(target) {
                            out.push(*target);
                        }
                    }
                }
            }
        }
        out
    }

    /// Like `ns_prefix`, for a named namespace given directly.
    fn ns_prefix_for(&self, i: usize, ns: &str) -> String {
        self.ns_prefix(i, ns)
    }

    /// The load a `CallMixin` performs: (target, url) of the definition it names.
    pub fn mixin_def(&self, lib: usize, id: u32) -> Option<(usize, &str)> {
        self.files.get(lib)?.stmts.iter().find_map(|s| match s {
            Stmt::DefMixin { id: d, target, url } if *d == id => Some((*target, url.as_str())),
            _ => None,
        })
    }

    pub fn build_fs(&self) -> SimFs {
        let mut fs = SimFs::new();
        for d in &self.extra_dirs {
            fs.add_dir(d);
        }
        for b in &self.bases {
            fs.add_dir(b);
        }
        for (i, f) in self.files.iter().enumerate() {
            fs.add_file(&f.path, self.render_file(i));
        }
        fs
    }

    /// The name rsass is given for the root: its path relative to bases[0].
    pub fn root_name(&self) -> String {
        rel_to_base(&self.files[0].path, &self.bases[0]).to_string()
    }

    pub fn loads(&self) -> impl Iterator<Item = (usize, &Stmt)> {
        self.files
            .iter()
            .enumerate()
            .flat_map(|(i, f)| f.stmts.iter().map(move |s| (i, s)))
            .filter(|(_, s)| matches!(s, Stmt::Load { .. }))
    }
}

pub fn rel_to_base<'a>(path: &'a str, base: &str) -> &'a str {
    if base.is_empty() {
        path
    } else {
        path.strip_prefix(base)
            .and_then(|p| p.strip_prefix('/'))
            .unwrap_or(path)
    }
}

pub fn dir_of(path: &str) -> &str {
    path.rfind('/').map_or("", |i| &path[..i])
}

fn comps(dir: &str) -> Vec<&str> {
    if dir.is_empty() {
        vec![]
    } else {
        dir.split('/').collect()
    }
}

/// The stems by which `file name` can be requested, by load kind class.
/// (`x.scss` -> x, x.scss; `_x.scss` -> x, _x, _x.scss; `x/index.scss` -> x, x/index, …)
fn stems(fname_with_parent: (&str, &str), rng: &mut Rng, allow_dir_index: bool) -> (Vec<String>, bool) {
    let (parentname, fname) = fname_with_parent;
    if let Some(base) = fname.strip_suffix(".css") {
        // a plain css file: by bare name (last candidates) or by its exact name
        let mut v = vec![base.trim_start_matches('_').to_string(), fname.to_string()];
        if base.starts_with('_') {
            v.push(base.to_string());
        }
        return (v, false);
    }
    let base = fname.trim_end_matches(".scss");
    let mut v = vec![];
    let mut uses_parent = false;
    let bare = base.trim_start_matches('_');
    if bare == "index" && allow_dir_index && !parentname.is_empty() && rng.chance(1, 2) {
        // address the directory instead of the index file
        uses_parent = true;
        return (vec![String::new()], uses_parent);
    }
    v.push(bare.to_string());
    v.push(format!("{base}.scss"));
    if base.starts_with('_') {
        v.push(base.to_string());
    }
    (v, uses_parent)
}

/// How much lexical noise to add to urls.
#[derive(Clone, Copy, Debug, PartialEq, Eq)]
pub enum Noise {
    /// canonical spelling only
    Canonical,
    /// `./`, `x/../`, `../d/` insertions
    Alias,
}

/// Spell a url by which the file at canonical path `importer` reaches the
/// file at canonical path `target`, relative to the importer's directory.
///
/// `depth0`: number of leading components of the importer's directory that
/// are *outside* what rsass knows lexically (i.e. the components of the base
/// directory the importer was found in); out-and-back noise (`../d/`) is only
/// inserted where the directory name being re-entered is part of the
/// lexically known path, so that every spelling is equivalent to the
/// canonical one by `.`/`..` normalisation alone.
pub fn spell_relative(
    fs: &SimFs,
    importer: &str,
    target: &str,
    depth0: usize,
    noise: Noise,
    rng: &mut Rng,
) -> String {
    let idir = comps(dir_of(importer));
    let tdir_s = dir_of(target);
    let tdir = comps(tdir_s);
    let fname = &target[if tdir_s.is_empty() { 0 } else { tdir_s.len() + 1 }..];
    let parentname = tdir.last().copied().unwrap_or("");
    let (st, uses_parent) = stems((parentname, fname), rng, true);
    let stem = rng.pick(&st).clone();

    let mut common = 0;
    while common < idir.len() && common < tdir.len() && idir[common] == tdir[common] {
        common += 1;
    }
    let mut path: Vec<String> = vec![];
    for _ in common..idir.len() {
        path.push("..".into());
    }
    for c in &tdir[common..] {
        path.push((*c).to_string());
    }
    if uses_parent {
        // `x/index.scss` addressed as `x`: needs the directory name as last component
        if path.last().is_none_or(|l| l == "..") {
            // cannot name the directory from here without its name; fall back
            path.push("index".into());
        }
    } else {
        path.push(stem);
    }

    if noise == Noise::Canonical {
        return path.join("/");
    }
    // Walk from the importer's directory inserting noise between components.
    let mut cur: Vec<String> = idir.iter().map(|s| (*s).to_string()).collect();
    let mut out: Vec<String> = vec![];
    let n = path.len();
    for (k, c) in path.iter().enumerate() {
        // noise before component k
        let mut tries = 0;
        while rng.chance(1, 3) && tries < 2 {
            tries += 1;
            match rng.below(3) {
                0 => {
                    if k == 0 || rng.chance(1, 2) {
                        out.push(".".into());
                    }
                }
                1 => {
                    let kids = fs.child_dirs(&cur.join("/"));
                    if !kids.is_empty() {
                        out.push(rng.pick(&kids).clone());
                        out.push("..".into());
                    }
                }
                _ => {
                    if cur.len() > depth0 {
                        let name = cur.last().unwrap().clone();
                        out.push("..".into());
                        out.push(name);
                    }
                }
            }
        }
        out.push(c.clone());
        if k + 1 < n {
            if c == ".." {
                cur.pop();
            } else {
                cur.push(c.clone());
            }
        }
    }
    out.join("/")
}

/// Candidate simplifications of a graph, simplest-making first.
pub fn graph_shrinks(g: &GraphSpec) -> Vec<GraphSpec> {
    let mut out = vec![];
    if !g.raw_text.is_empty() {
        // hand-built families with verbatim file texts are small already (indices must stay put)
        return out;
    }
    // drop a file (never the root)
    for i in (1..g.files.len()).rev() {
        let mut n = g.clone();
        n.files.remove(i);
        for f in &mut n.files {
            f.stmts.retain(|s| match s {
                Stmt::Load { target, .. }
                | Stmt::Assign { target, .. }
                | Stmt::DefMixin { target, .. }
                | Stmt::Probe { target, .. } => *target != i,
                Stmt::CallMixin { lib, .. } => *lib != i,
                _ => true,
            });
            for s in &mut f.stmts {
                match s {
                    Stmt::Load { target, .. }
                    | Stmt::Assign { target, .. }
                    | Stmt::DefMixin { target, .. }
                    | Stmt::Probe { target, .. } => {
                        if *target > i {
                            *target -= 1;
                        }
                    }
                    Stmt::CallMixin { lib, .. } => {
                        if *lib > i {
                            *lib -= 1;
                        }
                    }
                    _ => {}
                }
            }
        }
        // files are rendered with their index in names; paths stay
        out.push(n);
    }
    // drop a statement
    for i in 0..g.files.len() {
        for k in 0..g.files[i].stmts.len() {
            if matches!(g.files[i].stmts[k], Stmt::Marker | Stmt::ModuleVars) {
                continue;
            }
            let mut n = g.clone();
            let removed = n.files[i].stmts.remove(k);
            if let Stmt::Load { kind: LoadKind::Use, ns, .. } = &removed {
                // statements that go through this namespace go too
                let ns = ns.clone();
                n.files[i].stmts.retain(|s| match s {
                    Stmt::Assign { ns: a, .. } | Stmt::Probe { ns: a, .. } | Stmt::CallMixin { ns: a, .. } => *a != ns,
                    _ => true,
                });
            }
            out.push(n);
        }
    }
    // unwrap, canonicalise one spelling
    let fs = g.build_fs();
    for i in 0..g.files.len() {
        for k in 0..g.files[i].stmts.len() {
            if let Stmt::Load { wrap, url, target, kind, .. } = &g.files[i].stmts[k] {
                if *wrap != Wrap::None {
                    let mut n = g.clone();
                    if let Stmt::Load { wrap, .. } = &mut n.files[i].stmts[k] {
                        *wrap = Wrap::None;
                    }
                    out.push(n);
                }
                if matches!(&g.files[i].stmts[k], Stmt::Load { with_cfg: true, .. }) {
                    let mut n = g.clone();
                    if let Stmt::Load { with_cfg, .. } = &mut n.files[i].stmts[k] {
                        *with_cfg = false;
                    }
                    out.push(n);
                }
                let importer = &g.files[i].path;
                let tpath = &g.files[*target].path;
                let ibase = g.bases.iter().find(|b| importer.starts_with(&format!("{b}/")));
                let tbase = g.bases.iter().find(|b| tpath.starts_with(&format!("{b}/")));
                if let (Some(ib), Some(tb)) = (ibase, tbase) {
                    let from = if ib == tb { importer.clone() } else { format!("{tb}/__top.scss") };
                    let canon = spell_relative(&fs, &from, tpath, 1, Noise::Canonical, &mut Rng::new(0));
                    if canon != *url {
                        let iname = rel_to_base(importer, ib);
                        let m = crate::resolve::all_matches(
                            &fs,
                            &g.bases,
                            iname,
                            &canon,
                            *kind == LoadKind::Import,
                        );
                        if m.len() == 1 && m.contains(tpath) {
                            let mut n = g.clone();
                            if let Stmt::Load { url, .. } = &mut n.files[i].stmts[k] {
                                *url = canon;
                            }
                            out.push(n);
                        }
                    }
                }
            }
        }
    }
    if !g.extra_dirs.is_empty() {
        // only if no url needs them
        let mut n = g.clone();
        n.extra_dirs.clear();
        let nfs = n.build_fs();
        let ok = n.loads().all(|(i, s)| {
            if let Stmt::Load { url, target, kind, .. } = s {
                let importer = &n.files[i].path;
                let ib = n.bases.iter().find(|b| importer.starts_with(&format!("{b}/"))).unwrap();
                let m = crate::resolve::all_matches(
                    &nfs,
                    &n.bases,
                    rel_to_base(importer, ib),
                    url,
                    *kind == LoadKind::Import,
                );
                m.len() == 1 && m.contains(&n.files[*target].path)
            } else {
                true
            }
        });
        if ok {
            out.push(n);
        }
    }
    if g.fmt != Fmt::default() {
        let mut n = g.clone();
        n.fmt = Fmt::default();
        out.push(n);
    }
    if g.merge_imports {
        let mut n = g.clone();
        n.merge_imports = false;
        out.push(n);
    }
    // a call whose definition is gone goes too
    for n in &mut out {
        let defs: Vec<(usize, u32)> = n
            .files
            .iter()
            .enumerate()
            .flat_map(|(i, f)| {
                f.stmts.iter().filter_map(move |s| match s {
                    Stmt::DefMixin { id, .. } => Some((i, *id)),
                    _ => None,
                })
            })
            .collect();
        for f in &mut n.files {
            f.stmts.retain(|s| match s {
                Stmt::CallMixin { lib, id, .. } => defs.contains(&(*lib, *id)),
                _ => true,
            });
        }
    }
    out
}
