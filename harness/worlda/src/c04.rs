//! C04 — load URLs resolve to the documented candidate file.

use crate::core::*;
#[allow(unused_imports)]
use crate::core::StatsExt;
use crate::loader::*;
use crate::resolve::{candidates_import, candidates_use};
use crate::simfs::{FsStore, SimFs};
use crate::spec::LoadKind;
use serde::{Deserialize, Serialize};
use serde_json::{json, Value as Json};
use std::collections::BTreeSet;
use std::rc::Rc;
use vcommon::Rng;

pub struct C04;

#[derive(Clone, Copy, Debug, PartialEq, Eq, PartialOrd, Ord, Serialize, Deserialize)]
pub enum Loc {
    /// the importing file's directory
    Rel,
    /// the root's directory (first entry of the loader's path list), when the importer is in a sub-directory
    Base0,
    Lp1,
    Lp2,
    /// `<load path>/<importer's sub-directory>`: a place no reading of the rule looks in
    DecoyLp1,
    DecoyLp2,
    /// `w/w`: the root's directory name once more below it - where `dir/<url>` would land if the root
    /// were named by its full path (`dir/root.scss`) while the loader's base is already `dir`
    Nested,
}

#[derive(Clone, Debug, Serialize, Deserialize)]
pub struct Case {
    pub kind: LoadKind,
    pub subdir: bool,
    pub url: String,
    /// which candidate files exist: (location, index into the grouped candidate list)
    pub present: Vec<(Loc, usize)>,
    pub nlp: usize,
    /// plain-css arm: the literal argument of `@import` (kind is Import)
    pub plain: Option<String>,
    /// for the plain arm: a file that the argument could name exists
    pub plain_file: Option<String>,
    pub chunk: Chunking,
    /// compile through the real `FsLoader` on a materialised directory instead of the SimLoader
    #[serde(default)]
    pub real_fs: bool,
    /// real names of the directories `w`, `lp1`, `lp2` when `real_fs` (empty = unchanged)
    #[serde(default)]
    pub dirnames: Vec<String>,
    /// importer two directories deep (`w/d/e/imp.scss`) instead of one
    #[serde(default)]
    pub deep: bool,
    /// candidates that exist as DIRECTORIES of that name (must be skipped like missing files)
    #[serde(default)]
    pub present_dirs: Vec<(Loc, usize)>,
    /// plain arm: write the statement inside a style rule
    #[serde(default)]
    pub plain_nested: bool,
    /// compile through rsass' own FsLoader / CargoLoader code running over the simulated file system
    #[serde(default)]
    pub via: Via,
    /// import-only look-alikes (`u.import.scss`, `_u.import.scss`, `u/index.import.scss`,
    /// `u/_index.import.scss`) placed for a load kind that must ignore them: (location, which of the four)
    #[serde(default)]
    pub foreign: Vec<(Loc, usize)>,
    /// a SECOND importer (`w/x2/imp2.scss`) loads the same url with the same kind in the same
    /// compilation: resolution must not depend on what was resolved before
    #[serde(default)]
    pub two: Option<Two>,
    /// ANOTHER load (url `v`, same kind) written before or after the judged one in the same importer:
    /// what an earlier load found, and where, must not influence a later one
    #[serde(default)]
    pub other: Option<Other>,
    /// `@import` only: a plain-css url written BEFORE the judged url in the same rule
    /// (`@import "//cdn/x", "u";`): how one url of a rule was classified must not carry over to the next
    #[serde(default)]
    pub plain_first: Option<String>,
    /// real loaders only: open the root as `w/root.scss` from the top of the tree
    #[serde(default)]
    pub root_with_dir: bool,
    /// url `s/u` only: a REGULAR FILE named `s` next to the importer (which then has no candidate of its
    /// own): the lookup there fails with ENOTDIR rather than ENOENT and must still go on to the load paths
    #[serde(default)]
    pub blocker: bool,
}

#[derive(Clone, Debug, Serialize, Deserialize, PartialEq)]
pub struct Other {
    /// candidate files of url `v` that exist: (location, index into the candidate list of `v`)
    pub present: Vec<(Loc, usize)>,
    /// written before the judged load
    pub before: bool,
}

#[derive(Clone, Debug, Serialize, Deserialize, PartialEq)]
pub struct Two {
    /// candidates that exist next to the second importer
    pub present2: Vec<usize>,
    /// the root loads the second importer first
    pub swap: bool,
}

fn foreign_names(url: &str) -> Vec<String> {
    let (base, name) = url.rfind('/').map_or(("", url), |p| url.split_at(p + 1));
    vec![
        format!("{base}{name}.import.scss"),
        format!("{base}_{name}.import.scss"),
        format!("{base}{name}/index.import.scss"),
        format!("{base}{name}/_index.import.scss"),
    ]
}

fn cand_names(kind: LoadKind, url: &str) -> Vec<String> {
    if crate::resolve::has_ext(url) {
        // an explicit extension names exactly one file
        vec![url.to_string()]
    } else if kind == LoadKind::Import {
        candidates_import(url, true)
    } else {
        candidates_use(url)
    }
}

impl Case {
    fn sub(&self) -> &'static str {
        match (self.subdir, self.deep) {
            (false, _) => "",
            (true, false) => "d",
            (true, true) => "d/e",
        }
    }
    fn importer_dir(&self) -> String {
        if self.subdir {
            format!("w/{}", self.sub())
        } else {
            "w".to_string()
        }
    }
    fn loc_dir(&self, l: Loc) -> String {
        match l {
            Loc::Rel => self.importer_dir(),
            Loc::Base0 => "w".into(),
            Loc::Lp1 => "lp1".into(),
            Loc::Lp2 => "lp2".into(),
            Loc::DecoyLp1 => format!("lp1/{}", self.sub()),
            Loc::DecoyLp2 => format!("lp2/{}", self.sub()),
            Loc::Nested => "w/w".into(),
        }
    }
    fn path_of(&self, l: Loc, c: usize) -> String {
        format!("{}/{}", self.loc_dir(l), cand_names(self.kind, &self.url)[c])
    }
    fn bases(&self) -> Vec<String> {
        let mut b = vec!["w".to_string()];
        for i in 0..self.nlp {
            b.push(format!("lp{}", i + 1));
        }
        b
    }
    /// The load of url `v` (markers `o { p: "<path>" }`), in the same form as the judged one.
    fn other_stmt(&self) -> String {
        match self.kind {
            LoadKind::LoadCss => "@include meta.load-css(\"v\");\n".to_string(),
            LoadKind::Use => "@use \"v\" as tv;\n".to_string(),
            LoadKind::Forward => "@forward \"v\";\n".to_string(),
            _ => "@import \"v\";\n".to_string(),
        }
    }
    fn load_stmt(&self) -> String {
        if let Some(o) = &self.other {
            let main = self.load_stmt_single();
            let other = self.other_stmt();
            return if self.kind == LoadKind::LoadCss {
                // one `@use "sass:meta"` only, first
                let call = main.replacen("@use \"sass:meta\";\n", "", 1);
                if o.before {
                    format!("@use \"sass:meta\";\n{other}{call}")
                } else {
                    format!("@use \"sass:meta\";\n{call}{other}")
                }
            } else if o.before {
                format!("{other}{main}")
            } else {
                format!("{main}{other}")
            };
        }
        self.load_stmt_single()
    }
    fn load_stmt_single(&self) -> String {
        if let Some(p) = &self.plain {
            return if self.plain_nested {
                format!("n {{ @import {p}; }}\n")
            } else {
                format!("@import {p};\n")
            };
        }
        match self.kind {
            LoadKind::LoadCss => format!("@use \"sass:meta\";\n@include meta.load-css(\"{}\");\n", self.url),
            LoadKind::Use => format!("@use \"{}\" as t;\n", self.url),
            LoadKind::Forward => format!("@forward \"{}\";\n", self.url),
            _ => match &self.plain_first {
                Some(p) => format!("@import {p}, \"{}\";\n", self.url),
                None => format!("@import \"{}\";\n", self.url),
            },
        }
    }
    fn build(&self) -> (SimFs, String) {
        let mut fs = SimFs::new();
        for b in self.bases() {
            fs.add_dir(&b);
        }
        let root = if let (true, Some(two)) = (self.subdir, &self.two) {
            let sub = self.sub();
            fs.add_file(&format!("w/{sub}/imp.scss"), format!("{}i {{ p: imp; }}\n", self.load_stmt()));
            fs.add_file("w/x2/imp2.scss", format!("{}i2 {{ p: imp2; }}\n", self.load_stmt().replace(" as t;", " as t2;")));
            for c in &two.present2 {
                let p = format!("w/x2/{}", cand_names(self.kind, &self.url)[*c]);
                fs.add_file(&p, format!("c {{ p: \"{p}\"; }}\n"));
            }
            let (a, b) = if two.swap { ("x2/imp2".to_string(), format!("{sub}/imp")) } else { (format!("{sub}/imp"), "x2/imp2".to_string()) };
            if self.kind == LoadKind::Import {
                format!("@import \"{a}\";\n@import \"{b}\";\nr {{ p: root; }}\n")
            } else {
                format!("@use \"{a}\" as i;\n@use \"{b}\" as j;\nr {{ p: root; }}\n")
            }
        } else if self.subdir {
            let sub = self.sub();
            fs.add_file(&format!("w/{sub}/imp.scss"), format!("{}i {{ p: imp; }}\n", self.load_stmt()));
            if self.kind == LoadKind::Import {
                format!("@import \"{sub}/imp\";\nr {{ p: root; }}\n")
            } else {
                format!("@use \"{sub}/imp\" as i;\nr {{ p: root; }}\n")
            }
        } else {
            format!("{}r {{ p: root; }}\n", self.load_stmt())
        };
        fs.add_file("w/root.scss", root.clone());
        for (l, c) in &self.present {
            let p = self.path_of(*l, *c);
            fs.add_file(&p, format!("c {{ p: \"{p}\"; }}\n"));
        }
        if let Some(o) = &self.other {
            let names = cand_names(self.kind, "v");
            for (l, c) in &o.present {
                let p = format!("{}/{}", self.loc_dir(*l), names[*c]);
                fs.add_file(&p, format!("o {{ p: \"{p}\"; }}\n"));
            }
        }
        for (l, k) in &self.foreign {
            let p = format!("{}/{}", self.loc_dir(*l), foreign_names(&self.url)[*k]);
            fs.add_file(&p, format!("c {{ p: \"{p}\"; }}\n"));
        }
        for (l, c) in &self.present_dirs {
            if !self.has(*l, *c) {
                fs.add_dir(&self.path_of(*l, *c));
            }
        }
        if let Some(pf) = &self.plain_file {
            fs.add_file(pf, format!("c {{ p: \"{pf}\"; }}\n"));
        }
        // last, so that it only exists where nothing needs `s` to be a directory
        if self.blocker && self.url.starts_with("s/") && !fs.is_dir(&format!("{}/s", self.importer_dir())) {
            fs.add_file(&format!("{}/s", self.importer_dir()), "not a directory\n");
        }
        (fs, root)
    }
    fn has(&self, l: Loc, c: usize) -> bool {
        self.present.contains(&(l, c))
    }

    /// Winners under every admissible reading of the statement (`None` =
    /// nothing found).  Locations are strictly ordered — the importer's
    /// directory first, then each load path in order, the first existing
    /// candidate of the first location that has one wins — and two points stay
    /// open: whether "the matching .import.scss variant before each .scss
    /// candidate" means pairwise or grouped order (R-b), and whether the root's
    /// directory counts as a load path for an importer in a sub-directory (R-c).
    fn expected(&self) -> BTreeSet<Option<String>> {
        self.winners(false)
    }

    /// What rsass' structure gives instead: within one lookup round
    /// (importer-relative url; then url unchanged) the candidate list is the
    /// OUTER loop and the loader's directories the inner one, so an earlier
    /// candidate in a later directory beats a later candidate in an earlier
    /// directory (known finding F7).
    fn candidate_major_within_round(&self) -> BTreeSet<Option<String>> {
        self.winners(true)
    }

    fn winners(&self, cm_within_round: bool) -> BTreeSet<Option<String>> {
        let n = cand_names(self.kind, &self.url).len();
        let mut out = BTreeSet::new();
        let orders: Vec<Vec<usize>> = if self.kind == LoadKind::Import && n == 10 {
            vec![
                (0..n).collect(),                   // grouped (the list as named)
                vec![0, 2, 1, 3, 4, 6, 5, 7, 8, 9], // pairwise
            ]
        } else {
            vec![(0..n).collect()]
        };
        let lp_lists: Vec<Vec<Loc>> = {
            let mut lps = vec![];
            if self.nlp >= 1 {
                lps.push(Loc::Lp1);
            }
            if self.nlp >= 2 {
                lps.push(Loc::Lp2);
            }
            if self.subdir {
                let mut with = vec![Loc::Base0];
                with.extend(lps.iter().copied());
                vec![lps, with]
            } else {
                vec![lps]
            }
        };
        for order in &orders {
            for lps in &lp_lists {
                if !cm_within_round {
                    let mut locs = vec![Loc::Rel];
                    locs.extend(lps.iter().copied());
                    let lm = locs
                        .iter()
                        .find_map(|l| order.iter().find(|c| self.has(*l, **c)).map(|c| self.path_of(*l, *c)));
                    out.insert(lm);
                } else if self.subdir {
                    // round 1: the importer's directory; round 2: candidates x (root directory, load paths)
                    let rel = order.iter().find(|c| self.has(Loc::Rel, **c)).map(|c| self.path_of(Loc::Rel, *c));
                    let w = rel.or_else(|| {
                        order
                            .iter()
                            .find_map(|c| lps.iter().find(|l| self.has(**l, *c)).map(|l| self.path_of(*l, *c)))
                    });
                    out.insert(w);
                } else {
                    // one round: candidates x (importer's directory = root directory, load paths)
                    let mut locs = vec![Loc::Rel];
                    locs.extend(lps.iter().copied());
                    let w = order
                        .iter()
                        .find_map(|c| locs.iter().find(|l| self.has(**l, *c)).map(|l| self.path_of(*l, *c)));
                    out.insert(w);
                }
            }
        }
        out
    }
}

/// All candidate markers of the output, in order.
fn observed_markers(css: &str) -> Vec<String> {
    let mut out = vec![];
    let mut rest = css;
    while let Some(p) = rest.find("c {").or_else(|| rest.find("c{")) {
        let r = &rest[p..];
        let Some(q) = r.find('"') else { break };
        let r2 = &r[q + 1..];
        let Some(e) = r2.find('"') else { break };
        out.push(r2[..e].to_string());
        rest = &r2[e..];
    }
    out
}

impl Case {
    /// The other load (url `v`) as a case of its own.
    fn as_other(&self) -> Case {
        let mut c = self.clone();
        c.url = "v".into();
        c.present = self.other.as_ref().map(|o| o.present.clone()).unwrap_or_default();
        c.present_dirs = vec![];
        c.foreign = vec![];
        c.other = None;
        c.two = None;
        c
    }
    /// The case as the second importer sees it: its own directory instead of the first importer's.
    fn as_second(&self) -> (Case, Vec<usize>) {
        let two = self.two.clone().expect("two");
        let mut c = self.clone();
        c.two = None;
        c.present.retain(|(l, _)| *l != Loc::Rel);
        c.foreign.retain(|(l, _)| *l != Loc::Rel);
        c.present.extend(two.present2.iter().map(|k| (Loc::Rel, *k)));
        (c, two.present2)
    }
    fn as_first(&self) -> Case {
        let mut c = self.clone();
        c.two = None;
        c
    }
}

/// Judge a two-importer case: the sequence of distinct candidate files executed must be the one
/// that independent resolution of the two loads gives (under one admissible reading each).
fn judge_two(case: &Case, o: &Outcome, base_sig: &str, stats: &mut Stats) -> Judgement {
    let two = case.two.as_ref().expect("two");
    let c1 = case.as_first();
    let (c2, _) = case.as_second();
    let fix2 = |w: Option<String>| w.map(|p| p.replacen(&format!("{}/", c2.importer_dir()), "w/x2/", 1));
    let e1: Vec<Option<String>> = c1.expected().into_iter().collect();
    let e2: Vec<Option<String>> = c2.expected().into_iter().map(&fix2).collect();
    let m1: Vec<Option<String>> = c1.candidate_major_within_round().into_iter().collect();
    let m2: Vec<Option<String>> = c2.candidate_major_within_round().into_iter().map(&fix2).collect();
    stats.inc("probe:two_importers_judged");
    let seq = |a: &Option<String>, b: &Option<String>| -> Option<Vec<String>> {
        // None = the compilation must fail with "not found"
        let (first, second) = if two.swap { (b, a) } else { (a, b) };
        let (Some(f), Some(s)) = (first, second) else { return None };
        let mut v = vec![f.clone()];
        if s != f {
            v.push(s.clone());
        }
        Some(v)
    };
    let observed: Option<Vec<String>> = match &o.res {
        Res::Ok(css) => {
            let mut v: Vec<String> = vec![];
            for m in observed_markers(css) {
                if !v.contains(&m) {
                    v.push(m);
                }
            }
            Some(v)
        }
        Res::Err { text, .. } if text.contains("find stylesheet") || text.contains("not found") => None,
        other => {
            return Judgement::fail("wrong_candidate", format!("{base_sig} two_importers=1 observed=othererr"), format!("unexpected result {}", other.short()));
        }
    };
    let matches = |xs: &[Option<String>], ys: &[Option<String>]| xs.iter().any(|a| ys.iter().any(|b| seq(a, b) == observed));
    if matches(&e1, &e2) {
        if e1.iter().chain(e2.iter()).any(|w| w.as_ref().is_some_and(|p| !p.starts_with("w/d") && !p.starts_with("w/x2"))) {
            stats.inc("probe:two_importers_one_falls_back");
        }
        return Judgement::Pass;
    }
    let mut all1 = e1.clone();
    all1.extend(m1);
    let mut all2 = e2.clone();
    all2.extend(m2);
    let cm = matches(&all1, &all2);
    Judgement::fail(
        "wrong_candidate",
        format!("{base_sig} two_importers=1 unchanged_url_needed=0 observed_decoy=0 candidate_major_within_round={}", u8::from(cm)),
        format!(
            "two importers load {:?} ({}): first expects one of {:?}, second one of {:?} (second loaded first: {}); observed sequence {:?}",
            case.url,
            case.kind.letter(),
            e1,
            e2,
            two.swap,
            observed
        ),
    )
}

#[derive(Debug, PartialEq)]
enum Observed {
    Winner(String),
    NotFound,
    PlainImport,
    OtherErr(String),
    Nothing,
}

fn observe(res: &Res) -> Observed {
    match res {
        Res::Ok(css) => {
            if let Some(p) = css.find("c {").or_else(|| css.find("c{")) {
                let rest = &css[p..];
                if let Some(q) = rest.find('"') {
                    let r2 = &rest[q + 1..];
                    if let Some(e) = r2.find('"') {
                        return Observed::Winner(r2[..e].to_string());
                    }
                }
            }
            if css.contains("@import") {
                return Observed::PlainImport;
            }
            Observed::Nothing
        }
        Res::Err { text, .. } => {
            if text.contains("find stylesheet") || text.contains("not found") {
                Observed::NotFound
            } else {
                Observed::OtherErr(text.lines().next().unwrap_or("").to_string())
            }
        }
        Res::Panic(m) => Observed::OtherErr(format!("panic: {m}")),
    }
}

pub fn judge(case: &Case, stats: &mut Stats) -> (Judgement, Option<Outcome>) {
    let (fs, _) = case.build();
    let data = fs.file("w/root.scss").unwrap();
    let store = Rc::new(FsStore { fs, bases: case.bases() });
    let plan = FaultPlan::default();
    let run = |chunk: Chunking| {
        run_job(&Job {
            store: store.clone(),
            root_name: "root.scss",
            root_canon: "w/root.scss",
            root_data: data.clone(),
            fmt: Fmt::default(),
            plan: &plan,
            chunk,
            budget: 2000,
        })
    };
    let o = if case.real_fs {
        let names = case.dirnames.clone();
        let rename = move |p: &str| -> String {
            let (top, rest) = p.split_once('/').map_or((p, None), |(a, b)| (a, Some(b)));
            let k = match top {
                "w" => 0,
                "lp1" => 1,
                "lp2" => 2,
                _ => usize::MAX,
            };
            let top = names.get(k).map_or(top, String::as_str);
            match rest {
                Some(r) => format!("{top}/{r}"),
                None => top.to_string(),
            }
        };
        let res = crate::xval::real_result_renamed(
            &store.fs,
            &case.bases(),
            "w/root.scss",
            "root.scss",
            Fmt::default(),
            &format!("c04real-{}", vcommon::fnv64(serde_json::to_string(case).unwrap().as_bytes())),
            &rename,
        );
        stats.inc("probe:judged_through_real_fsloader");
        Outcome {
            res,
            history: vec![],
            delivered: vec![],
            budget_hit: false,
            fired: vcommon::Counters::default(),
            finds: 0,
            hits: 0,
            opens: 0,
        }
    } else if case.via != Via::Stub {
        let bases = case.bases();
        let o = run_job_real(&RealJob {
            fs: &store.fs,
            bases: &bases,
            root_rel: "root.scss",
            fmt: Fmt::default(),
            plan: &plan,
            chunk: case.chunk,
            budget: 2000,
            via: case.via,
            root_with_dir: case.root_with_dir,
        });
        stats.compiled(&o);
        stats.inc(if case.via == Via::Fs { "probe:judged_through_fsloader_over_simfs" } else { "probe:judged_through_cargoloader_over_simfs" });
        o
    } else {
        let o = run(Chunking::NONE);
        stats.compiled(&o);
        o
    };
    let obs = observe(&o.res);
    let base_sig = format!(
        "kind={} subdir={} url={} nlp={} loader={}",
        case.kind.letter(),
        u8::from(case.subdir),
        case.url,
        case.nlp,
        if case.real_fs {
            "fs"
        } else {
            match case.via {
                Via::Stub => "sim",
                Via::Fs => "fs_over_simfs",
                Via::Cargo => "cargo_over_simfs",
            }
        }
    );
    if let Res::Panic(m) = &o.res {
        return (Judgement::fail("no_panic", base_sig, format!("panic: {m}")), Some(o));
    }
    if case.two.is_some() && case.subdir {
        let j = judge_two(case, &o, &base_sig, stats);
        return (j, Some(o));
    }
    // ---- plain css arm
    if let Some(arg) = &case.plain {
        let must_be_plain = case.plain_file.is_none();
        let is_plain_form = arg.contains(".css")
            || arg.contains("http://")
            || arg.contains("https://")
            || arg.contains("\"//")
            || arg.starts_with("url(");
        stats.inc(if is_plain_form { "probe:plain_css_form" } else { "probe:plain_arm_negative" });
        let j = match (&obs, is_plain_form, must_be_plain) {
            (Observed::PlainImport, true, _) => {
                stats.inc("probe:plain_css_fallback");
                Judgement::Pass
            }
            // an existing file may be loaded instead (the statement only speaks of "nothing found")
            (Observed::Winner(w), true, false) if Some(w) == case.plain_file.as_ref() => Judgement::Pass,
            (Observed::NotFound, false, _) => Judgement::Pass,
            (Observed::Winner(w), false, false) if Some(w) == case.plain_file.as_ref() => Judgement::Pass,
            _ => Judgement::fail(
                "plain_css_import",
                format!("{base_sig} plain_form={} file_exists={}", u8::from(is_plain_form), u8::from(!must_be_plain)),
                format!("@import {arg}: observed {obs:?}"),
            ),
        };
        return (j, Some(o));
    }
    // ---- candidate arm
    let exp = case.expected();
    if exp.len() > 1 {
        stats.inc("probe:reading_disagreements");
    }
    let locs: BTreeSet<Loc> = case.present.iter().map(|(l, _)| *l).collect();
    if locs.len() > 1 {
        stats.inc("probe:several_locations");
    }
    if locs.contains(&Loc::Rel) && locs.iter().any(|l| matches!(l, Loc::Lp1 | Loc::Lp2 | Loc::Base0)) {
        stats.inc("probe:relative_and_loadpath");
    }
    let obs_opt: Option<Option<String>> = match &obs {
        Observed::Winner(w) => Some(Some(w.clone())),
        Observed::NotFound => Some(None),
        _ => None,
    };
    let ok = obs_opt.as_ref().is_some_and(|o| exp.contains(o));
    if ok {
        if !case.foreign.is_empty() {
            stats.inc("probe:import_only_lookalike_ignored");
        }
        // the other load of the same importer is judged on its own
        if let (Some(oth), Res::Ok(css)) = (&case.other, &o.res) {
            let sub = case.as_other();
            let exp2 = sub.expected();
            let obs2: Option<String> = css.find("o {").or_else(|| css.find("o{")).and_then(|p| {
                let r = &css[p..];
                let q = r.find('"')?;
                let r2 = &r[q + 1..];
                let e = r2.find('"')?;
                Some(r2[..e].to_string())
            });
            stats.inc("probe:other_load_judged");
            if !exp2.contains(&obs2) {
                let cm = sub.candidate_major_within_round().contains(&obs2);
                let decoy = obs2.as_ref().is_some_and(|w| case.subdir && (w.starts_with(&format!("lp1/{}/", case.sub())) || w.starts_with(&format!("lp2/{}/", case.sub()))));
                return (
                    Judgement::fail(
                        "wrong_candidate",
                        format!(
                            "{base_sig} other_load=1 before={} unchanged_url_needed=0 observed_decoy={} candidate_major_within_round={}",
                            u8::from(oth.before),
                            u8::from(decoy),
                            u8::from(cm && !decoy)
                        ),
                        format!(
                            "a second load (`v`, written {} the judged one) resolved to {:?}, expected one of {:?}; judged load resolved to {:?}",
                            if oth.before { "before" } else { "after" },
                            obs2,
                            exp2,
                            obs
                        ),
                    ),
                    Some(o),
                );
            }
        }
        if let Some(Some(w)) = &obs_opt {
            if w.contains(".import.") {
                stats.inc("probe:import_only_file_won");
            }
            if w.ends_with(".css") {
                stats.inc("probe:css_file_won");
            }
            if w.contains("index") {
                stats.inc("probe:index_file_won");
            }
            if !w.starts_with(&format!("{}/", case.importer_dir())) {
                stats.inc("probe:found_in_load_path");
            }
        } else {
            stats.inc("probe:nothing_found_is_error");
        }
        if case.chunk.is_benign_noise() && !case.real_fs && case.via == Via::Stub {
            let o2 = run(case.chunk);
            stats.compiled(&o2);
            if o2.res != o.res {
                return (
                    Judgement::fail("benign_changed_result", base_sig, format!("{} vs {}", o.res.short(), o2.res.short())),
                    Some(o2),
                );
            }
        }
        return (Judgement::Pass, Some(o));
    }
    // classify the disagreement
    let mut sig = base_sig;
    let only_unchanged = !locs.contains(&Loc::Rel)
        && case.subdir
        && locs.iter().any(|l| matches!(l, Loc::Lp1 | Loc::Lp2 | Loc::Base0));
    sig.push_str(&format!(" unchanged_url_needed={}", u8::from(only_unchanged)));
    let decoy = match &obs {
        Observed::Winner(w) => case.subdir && (w.starts_with(&format!("lp1/{}/", case.sub())) || w.starts_with(&format!("lp2/{}/", case.sub()))),
        _ => false,
    };
    sig.push_str(&format!(" observed_decoy={}", u8::from(decoy)));
    let cm = obs_opt.as_ref().is_some_and(|o| case.candidate_major_within_round().contains(o));
    sig.push_str(&format!(" candidate_major_within_round={}", u8::from(cm && !decoy)));
    sig.push_str(&format!(" observed={}", match &obs {
        Observed::Winner(_) => "file",
        Observed::NotFound => "notfound",
        Observed::PlainImport => "plainimport",
        Observed::OtherErr(_) => "othererr",
        Observed::Nothing => "nothing",
    }));
    let exp_s: Vec<String> = exp.iter().map(|e| e.clone().unwrap_or_else(|| "<not found>".into())).collect();
    (
        Judgement::fail(
            "wrong_candidate",
            sig,
            format!(
                "{} in {}: expected one of {:?}, observed {:?}; present: {:?}",
                case.load_stmt().trim(),
                if case.subdir { format!("{}/imp.scss", case.importer_dir()) } else { "w/root.scss".to_string() },
                exp_s,
                obs,
                case.present.iter().map(|(l, c)| case.path_of(*l, *c)).collect::<Vec<_>>()
            ),
        ),
        Some(o),
    )
}

fn to_violations(case: &Case, j: Judgement, o: Option<&Outcome>) -> Vec<Violation> {
    match j {
        Judgement::Fail { oracle, signature, detail } => {
            let mut cj = serde_json::to_value(case).unwrap();
            let (fs, _) = case.build();
            cj["files_rendered"] = Json::Object(
                fs.files().map(|(p, d)| (p.clone(), json!(String::from_utf8_lossy(d)))).collect(),
            );
            cj["bases"] = json!(case.bases());
            if let Some(o) = o {
                cj["history"] = serde_json::to_value(&o.history).unwrap();
                cj["history_digest"] = json!(vcommon::hex(o.history_digest()));
                cj["result"] = json!(o.res.short());
            }
            vec![Violation {
                property: "C04".into(),
                oracle,
                signature,
                detail,
                case: cj,
                seed: 0,
                index: 0,
                minimised: false,
                shrink_steps: 0,
            }]
        }
        _ => vec![],
    }
}

const N_USE: u64 = 64;
const N_IMP: u64 = 1024;
const SINGLE: u64 = (N_USE + N_USE + N_IMP) * 4;
const TWO_LOC_USE: u64 = 4096 * 2;
/// every subset triple over importer directory x lp1 x lp2 for @use (2^18), importer at root / in a sub-directory
const THREE_LOC_USE: u64 = (1 << 18) * 2;
/// every subset pair over importer directory x lp1 for @import (2^20), importer at root / in a sub-directory
const TWO_LOC_IMP: u64 = (1 << 20) * 2;

const PLAIN_FORMS: [(&str, Option<&str>); 12] = [
    ("\"x.css\"", Some("x.css")),
    ("\"s/x.css\"", Some("s/x.css")),
    ("\"http://h.example/x\"", None),
    ("\"https://h.example/x.scss\"", None),
    ("\"//h.example/x\"", None),
    ("url(x)", None),
    ("url(\"x.scss\")", None),
    // negatives: not a plain-css form, nothing to find -> must fail
    ("\"nofile\"", None),
    ("\"s/nofile.scss\"", None),
    // with media queries
    ("\"x.css\" screen", None),
    ("url(x.css) print", None),
    ("\"https://h.example/x.css\" screen and (min-width: 1px)", None),
];
const PLAIN: u64 = 12 * 2 * 2 * 2;

fn subset(bits: u64, n: usize, loc: Loc) -> Vec<(Loc, usize)> {
    (0..n).filter(|c| bits & (1 << c) != 0).map(|c| (loc, c)).collect()
}

/// Decode run `index` into a case: exhaustive sections first, then seeded sampling.
pub fn case_for(index: u64, tier: Tier, rng: &mut Rng) -> (Case, &'static str) {
    let mut i = index;
    if i < SINGLE {
        let variant = i % 4;
        i /= 4;
        let (kind, bits, n) = if i < N_USE {
            (LoadKind::Use, i, 6)
        } else if i < 2 * N_USE {
            (LoadKind::Forward, i - N_USE, 6)
        } else {
            (LoadKind::Import, i - 2 * N_USE, 10)
        };
        return (
            Case {
                kind,
                subdir: variant & 1 != 0,
                url: if variant & 2 != 0 { "s/u".into() } else { "u".into() },
                present: subset(bits, n, Loc::Rel),
                nlp: rng.usize(3),
                plain: None,
                plain_file: None,
                chunk: Chunking::NONE,
                real_fs: false,
                dirnames: vec![],
                deep: false,
                present_dirs: vec![],
                plain_nested: false,
                via: Via::Stub,
                foreign: vec![],
                two: None,
                other: None,
                plain_first: None,
                root_with_dir: i % 2 == 1,
                blocker: false,
            },
            "single_location_exhaustive",
        );
    }
    i -= SINGLE;
    if i < PLAIN {
        let (arg, file) = PLAIN_FORMS[(i / 8) as usize];
        let subdir = i & 1 != 0;
        let exists = i & 2 != 0;
        let nested = i & 4 != 0;
        let dir = if subdir { "w/d" } else { "w" };
        return (
            Case {
                kind: LoadKind::Import,
                subdir,
                url: String::new(),
                present: vec![],
                nlp: rng.usize(3),
                plain: Some(arg.to_string()),
                plain_file: if exists { file.map(|f| format!("{dir}/{f}")) } else { None },
                chunk: Chunking::NONE,
                real_fs: false,
                dirnames: vec![],
                deep: false,
                present_dirs: vec![],
                plain_nested: nested,
                via: Via::Stub,
                foreign: vec![],
                two: None,
                other: None,
                plain_first: None,
                root_with_dir: i % 2 == 1,
                blocker: false,
            },
            "plain_css_arm",
        );
    }
    i -= PLAIN;
    if tier == Tier::Thorough && i < TWO_LOC_USE {
        // exhaustive over two locations (importer dir x lp1) for @use
        let subdir = i & 1 != 0;
        let bits = i >> 1;
        let mut present = subset(bits & 63, 6, Loc::Rel);
        present.extend(subset(bits >> 6, 6, Loc::Lp1));
        return (
            Case {
                kind: LoadKind::Use,
                subdir,
                url: "u".into(),
                present,
                nlp: 1,
                plain: None,
                plain_file: None,
                chunk: Chunking::NONE,
                real_fs: false,
                dirnames: vec![],
                deep: false,
                present_dirs: vec![],
                plain_nested: false,
                via: Via::Stub,
                foreign: vec![],
                two: None,
                other: None,
                plain_first: None,
                root_with_dir: i % 2 == 1,
                blocker: false,
            },
            "two_locations_use_exhaustive",
        );
    }
    if tier == Tier::Thorough {
        i -= TWO_LOC_USE;
        if i < THREE_LOC_USE + TWO_LOC_IMP {
            let (kind, subdir, present, nlp, section) = if i < THREE_LOC_USE {
                let subdir = i & 1 != 0;
                let bits = i >> 1;
                let mut present = subset(bits & 63, 6, Loc::Rel);
                present.extend(subset((bits >> 6) & 63, 6, Loc::Lp1));
                present.extend(subset(bits >> 12, 6, Loc::Lp2));
                (LoadKind::Use, subdir, present, 2, "three_locations_use_exhaustive")
            } else {
                let k = i - THREE_LOC_USE;
                let subdir = k & 1 != 0;
                let bits = k >> 1;
                let mut present = subset(bits & 1023, 10, Loc::Rel);
                present.extend(subset(bits >> 10, 10, Loc::Lp1));
                (LoadKind::Import, subdir, present, 1, "two_locations_import_exhaustive")
            };
            return (
                Case {
                    kind,
                    subdir,
                    url: "u".into(),
                    present,
                    nlp,
                    plain: None,
                    plain_file: None,
                    chunk: Chunking::NONE,
                    real_fs: false,
                    dirnames: vec![],
                    deep: false,
                    present_dirs: vec![],
                    plain_nested: false,
                    via: Via::Stub,
                    foreign: vec![],
                    two: None,
                    other: None,
                    plain_first: None,
                    root_with_dir: i % 2 == 1,
                    blocker: false,
                },
                section,
            );
        }
    }
    // seeded sampling over several locations
    let kind = *rng.pick(&[LoadKind::Use, LoadKind::Forward, LoadKind::Import, LoadKind::Import, LoadKind::LoadCss]);
    let subdir = rng.chance(1, 2);
    let deep = subdir && rng.chance(1, 3);
    let nlp = 1 + rng.usize(2);
    let url: String = match rng.below(11) {
        0..=4 => "u".into(),
        5 | 6 => "s/u".into(),
        7 => "u.scss".into(),
        8 => "s/u.scss".into(),
        9 => "u.SCSS".into(),
        _ => "u.x".into(),
    };
    let n = cand_names(kind, &url).len();
    let mut locs = vec![Loc::Rel, Loc::Lp1];
    if nlp == 2 {
        locs.push(Loc::Lp2);
    }
    if subdir {
        locs.push(Loc::Base0);
        if rng.chance(1, 6) {
            locs.push(Loc::DecoyLp1);
            if nlp == 2 {
                locs.push(Loc::DecoyLp2);
            }
        }
    }
    if !subdir && rng.chance(1, 5) {
        locs.push(Loc::Nested);
    }
    let density = *rng.pick(&[1u64, 2, 4]); // eighths
    let mut present = vec![];
    for l in &locs {
        // sometimes leave a whole location empty so that later ones matter
        if rng.chance(1, 3) {
            continue;
        }
        for c in 0..n {
            if rng.below(8) < density {
                present.push((*l, c));
            }
        }
    }
    // a second importer in another directory loading the same url (never with decoy directories,
    // whose known finding F6 would blur the verdict)
    let has_decoy = locs.iter().any(|l| matches!(l, Loc::DecoyLp1 | Loc::DecoyLp2));
    let two = if subdir && !has_decoy && rng.chance(1, 3) {
        // the interesting shape: one importer has no candidate of its own and falls back
        if rng.chance(1, 2) {
            present.retain(|(l, _)| *l != Loc::Rel);
        }
        let present2: Vec<usize> = if rng.chance(1, 3) { vec![] } else { (0..n).filter(|_| rng.below(8) < density.max(2)).collect() };
        Some(Two { present2, swap: rng.chance(1, 2) })
    } else {
        None
    };
    // import-only look-alikes for a kind that must not see them
    let mut foreign = vec![];
    if kind != LoadKind::Import && !crate::resolve::has_ext(&url) && !url.contains('.') && rng.chance(1, 3) {
        for l in &locs {
            for k in 0..4 {
                if rng.chance(1, 3) {
                    foreign.push((*l, k));
                }
            }
        }
    }
    // another load (url `v`) in the same importer, always resolvable: at least one candidate in
    // a location that every reading searches
    let other = if two.is_none() && !has_decoy && !crate::resolve::has_ext(&url) && rng.chance(1, 3) {
        let n2 = cand_names(kind, "v").len();
        let mut p2 = vec![];
        for l in &locs {
            if matches!(l, Loc::Base0 | Loc::Nested) {
                continue; // Base0: whether the root directory is searched is left open (R-c); Nested: never searched
            }
            if rng.chance(1, 2) {
                continue;
            }
            for c in 0..n2 {
                if rng.below(8) < 2 {
                    p2.push((*l, c));
                }
            }
        }
        if p2.is_empty() {
            // the shape that matters most: found only in a load path
            p2.push((Loc::Lp1, rng.usize(n2)));
        }
        Some(Other { present: p2, before: rng.chance(2, 3) })
    } else {
        None
    };
    let blocker = url.starts_with("s/") && rng.chance(1, 2);
    let section = if two.is_some() { "two_importers_sampled" } else if other.is_some() { "two_loads_sampled" } else { "several_locations_sampled" };
    (
        Case {
            kind,
            subdir,
            url,
            foreign,
            two,
            other,
            root_with_dir: rng.chance(1, 2),
            blocker,
            plain_first: if kind == LoadKind::Import && rng.chance(1, 4) {
                Some(rng.pick(&["\"//cdn.example/x\"", "\"http://h.example/y.css\"", "\"missing-plain.css\"", "url(z.css)"]).to_string())
            } else {
                None
            },
            present_dirs: {
                let mut v = vec![];
                if rng.chance(1, 5) {
                    for l in &locs {
                        for c in 0..n {
                            if rng.chance(1, 6) && !present.contains(&(*l, c)) {
                                v.push((*l, c));
                            }
                        }
                    }
                }
                v
            },
            deep,
            plain_nested: false,
            present,
            nlp,
            plain: None,
            plain_file: None,
            chunk: if rng.chance(1, 5) { Chunking::draw_for_generated(rng) } else { Chunking::NONE },
            real_fs: false,
            dirnames: vec![],
            via: Via::Stub,
        },
        section,
    )
}

impl Prop for C04 {
    fn id(&self) -> &'static str {
        "C04"
    }
    fn level(&self) -> &'static str {
        "exploration"
    }
    fn runs(&self, tier: Tier) -> u64 {
        match tier {
            Tier::Quick => SINGLE + PLAIN + 40_000,
            Tier::Thorough => SINGLE + PLAIN + TWO_LOC_USE + THREE_LOC_USE + TWO_LOC_IMP + 1_000_000,
        }
    }
    fn run(&self, seed: u64, index: u64, tier: Tier, stats: &mut Stats) -> Vec<Violation> {
        let mut rng = Rng::new(seed);
        let (case, section) = case_for(index, tier, &mut rng);
        stats.inc("runs");
        stats.inc(&format!("stratum:{section}/{}", case.kind.letter()));
        stats.inc("judged");
        let (j, o) = judge(&case, stats);
        // the big exhaustive sections of the thorough tier stay off the real disk (the sampled section covers that)
        let big_exhaustive = section.ends_with("_exhaustive") && section != "single_location_exhaustive";
        if index % 40 == 7 && !big_exhaustive {
            if let Some(o) = &o {
                let (fs, _) = case.build();
                let real = crate::xval::real_result(&fs, &case.bases(), "w/root.scss", "root.scss", Fmt::default(), &format!("c04-{index}"));
                stats.inc("probe:stub_validated_against_real");
                if real != o.res {
                    stats.inc("xval_mismatch");
                    stats.sample(8, || json!({"xval_mismatch": true, "index": index, "sim": o.res.short(), "real": real.short()}));
                }
            }
        }
        let mut extra_violations = vec![];
        if index % 6 == 1 && case.plain.is_none() && !big_exhaustive {
            // the same layout through the real FsLoader, with directory names whose
            // sort order differs from the search order
            let mut c2 = case.clone();
            c2.real_fs = true;
            c2.chunk = Chunking::NONE;
            c2.dirnames = match rng.below(4) {
                0 => vec!["w".into(), "lp1".into(), "lp2".into()],
                1 => vec!["w".into(), "zlp".into(), "alp".into()],
                2 => vec!["m".into(), "zz".into(), "aa".into()],
                _ => vec!["proj".into(), "inc".into(), "vendor".into()],
            };
            let (j2, o2) = judge(&c2, stats);
            extra_violations = to_violations(&c2, j2, o2.as_ref());
        }
        // the same layout through rsass' own loaders (real FsLoader / CargoLoader code) over the
        // simulated file system: same oracle, and the result must equal the stub's
        for via in [Via::Fs, Via::Cargo] {
            if via == Via::Cargo && index % 3 != 0 {
                continue;
            }
            let mut c3 = case.clone();
            c3.via = via;
            let (j3, o3) = judge(&c3, stats);
            if let (Some(o), Some(o3)) = (&o, &o3) {
                if o.res != o3.res {
                    stats.inc("stub_vs_real_loader_code_mismatch");
                    stats.sample(8, || json!({"stub_vs_real_loader_code_mismatch": true, "index": index, "via": format!("{via:?}"), "sim": o.res.short(), "real_code": o3.res.short()}));
                }
            }
            extra_violations.extend(to_violations(&c3, j3, o3.as_ref()));
        }
        if let Some(o) = &o {
            // distinct = distinct (layout, load statement) configurations with their observed result
            let mut d = vcommon::Digest::new();
            d.str(&serde_json::to_string(&case).unwrap()).str(&o.res.short());
            stats.nontrivial(d.finish());
            if index % 997 == 0 || index >= SINGLE + PLAIN {
                stats.sample(5, || {
                    let (fs, _) = case.build();
                    json!({
                        "index": index,
                        "section": section,
                        "files": fs.files().map(|(p, d)| json!({"path": p, "text": String::from_utf8_lossy(d)})).collect::<Vec<_>>(),
                        "bases": case.bases(),
                        "expected_under_readings": case.expected().into_iter().map(|e| e.unwrap_or_else(|| "<not found>".into())).collect::<Vec<_>>(),
                        "history": o.history,
                        "result": o.res.short(),
                    })
                });
            }
        }
        let mut v = to_violations(&case, j, o.as_ref());
        v.extend(extra_violations);
        v
    }
    fn replay(&self, case: &Json, stats: &mut Stats) -> Vec<Violation> {
        let Ok(case) = serde_json::from_value::<Case>(case.clone()) else {
            return vec![];
        };
        let (j, o) = judge(&case, stats);
        to_violations(&case, j, o.as_ref())
    }
    fn shrink_candidates(&self, case: &Json) -> Vec<Json> {
        let Ok(case) = serde_json::from_value::<Case>(case.clone()) else {
            return vec![];
        };
        let mut out = vec![];
        for k in 0..case.present.len() {
            let mut c = case.clone();
            c.present.remove(k);
            out.push(serde_json::to_value(c).unwrap());
        }
        if case.chunk != Chunking::NONE {
            let mut c = case.clone();
            c.chunk = Chunking::NONE;
            out.push(serde_json::to_value(c).unwrap());
        }
        if case.url != "u" && case.plain.is_none() {
            let mut c = case.clone();
            c.url = "u".into();
            out.push(serde_json::to_value(c).unwrap());
        }
        if case.nlp > 0 {
            let mut c = case.clone();
            c.nlp -= 1;
            let gone = if c.nlp == 0 { vec![Loc::Lp1, Loc::DecoyLp1] } else { vec![Loc::Lp2, Loc::DecoyLp2] };
            if !c.present.iter().any(|(l, _)| gone.contains(l)) {
                out.push(serde_json::to_value(c).unwrap());
            }
        }
        out
    }
    fn evidence_extra(&self, stats: &Stats) -> Json {
        crate::core::world_a_extra(stats)
    }
    fn rule(&self) -> String {
        format!("Runs 0..{SINGLE} enumerate exhaustively every subset of the candidate files in the importer's directory (2^6 for @use, 2^6 for @forward, 2^10 for @import) x importer at the root / in a sub-directory x url `u` / `s/u`; the next {PLAIN} runs enumerate the plain-CSS @import forms with and without a matching file; (thorough only) the next {TWO_LOC_USE} enumerate every subset pair over importer directory x first load path for @use, the next {THREE_LOC_USE} every subset triple over importer directory x two load paths for @use (2^18 x root/sub-directory importer), the next {TWO_LOC_IMP} every subset pair over importer directory x first load path for @import (2^20 x 2); the remaining runs sample subsets over importer directory, root directory, up to two load paths and decoy directories from the seed. Each case is compiled by the real library through SimLoader; the file whose marker appears must be the winner under at least one admissible reading of the rule (location-major / candidate-major, pairwise / grouped import-only order, root directory counted as load path or not). Non-trivial = every run (each has at least one lookup); distinct = distinct (layout, load statement, result) configurations. Every 6th layout is also materialised on the real file system under directory names whose sort order differs from the search order and compiled through the real FsLoader, and judged by the same oracle (loader=fs); every 40th run the real and the simulated result must also be equal (probe stub_validated_against_real).")
    }
    fn assumptions(&self) -> Vec<String> {
        vec![
            "SimFs has POSIX lexical path semantics without symlinks".into(),
            "locations are strictly ordered (importer's directory, then each load path); only the pairwise/grouped import-only order and whether the root directory is a load path for a sub-directory importer are left open (union accepted; probe reading_disagreements)".into(),
            "an existing .css target of @import may be loaded or emitted verbatim (the statement only fixes the not-found case)".into(),
        ]
    }
    fn sanity(&self, stats: &Stats, _tier: Tier) -> Vec<String> {
        let mut errs = vec![];
        let runs = stats.c.get("runs");
        if stats.c.get("xval_mismatch") > 0 {
            errs.push(format!(
                "{} layouts gave different results through SimLoader and through the real FsLoader (the stub misrepresents the file system)",
                stats.c.get("xval_mismatch")
            ));
        }
        if stats.c.get("stub_vs_real_loader_code_mismatch") > 0 {
            errs.push(format!(
                "{} layouts gave different results through the SimLoader stub and through rsass' own loader code over the same simulated file system",
                stats.c.get("stub_vs_real_loader_code_mismatch")
            ));
        }
        for p in [
            "probe:stub_validated_against_real",
            "probe:judged_through_real_fsloader",
            "probe:judged_through_fsloader_over_simfs",
            "probe:two_importers_judged",
            "probe:other_load_judged",
            "probe:two_importers_one_falls_back",
            "probe:import_only_lookalike_ignored",
            "probe:judged_through_cargoloader_over_simfs",
            "probe:import_only_file_won",
            "probe:css_file_won",
            "probe:index_file_won",
            "probe:nothing_found_is_error",
            "probe:plain_css_fallback",
            "probe:several_locations",
        ] {
            if runs >= SINGLE + PLAIN && stats.c.get(p) == 0 {
                errs.push(format!("probe {p} stuck at zero"));
            }
        }
        errs
    }
}
