//! SimFs: an in-memory tree of directories and regular files with POSIX
//! path-lookup semantics (no symlinks, no case folding), and the `Store`s
//! that answer loader lookups on top of it.

use std::collections::{BTreeMap, BTreeSet};
use std::rc::Rc;

#[derive(Clone, Debug, Default)]
pub struct SimFs {
    /// Canonical directory paths, "" is the root.
    dirs: BTreeSet<String>,
    /// Canonical file path -> contents.
    files: BTreeMap<String, Rc<Vec<u8>>>,
}

fn parent(p: &str) -> &str {
    p.rfind('/').map_or("", |i| &p[..i])
}

impl SimFs {
    pub fn new() -> Self {
        let mut fs = SimFs::default();
        fs.dirs.insert(String::new());
        fs
    }
    pub fn add_dir(&mut self, path: &str) {
        let mut p = path.trim_matches('/');
        loop {
            self.dirs.insert(p.to_string());
            if p.is_empty() {
                break;
            }
            p = parent(p);
        }
    }
    pub fn add_file(&mut self, path: &str, content: impl Into<Vec<u8>>) {
        let path = path.trim_matches('/');
        self.add_dir(parent(path));
        self.files.insert(path.to_string(), Rc::new(content.into()));
    }
    pub fn is_dir(&self, p: &str) -> bool {
        self.dirs.contains(p)
    }
    pub fn is_file(&self, p: &str) -> bool {
        self.files.contains_key(p)
    }
    pub fn file(&self, p: &str) -> Option<Rc<Vec<u8>>> {
        self.files.get(p).cloned()
    }
    pub fn files(&self) -> impl Iterator<Item = (&String, &Rc<Vec<u8>>)> {
        self.files.iter()
    }
    pub fn dirs(&self) -> impl Iterator<Item = &String> {
        self.dirs.iter()
    }
    /// Child directory names of directory `d`.
    pub fn child_dirs(&self, d: &str) -> Vec<String> {
        self.dirs
            .iter()
            .filter(|x| !x.is_empty() && parent(x) == d)
            .map(|x| x.rsplit('/').next().unwrap().to_string())
            .collect()
    }

    /// Does the lookup of `url` from `base` run into a REGULAR FILE where it needs a directory
    /// (`open("w/s/u.scss")` while `w/s` is a file: ENOTDIR, not ENOENT)?
    pub fn blocked_by_file(&self, base: &str, url: &str) -> bool {
        if url.starts_with('/') || !self.is_dir(base) {
            return false;
        }
        let mut cur: String = base.to_string();
        let comps: Vec<&str> = url.split('/').collect();
        for c in &comps[..comps.len().saturating_sub(1)] {
            match *c {
                "" | "." => {}
                ".." => {
                    if cur.is_empty() {
                        return false;
                    }
                    cur = parent(&cur).to_string();
                }
                name => {
                    let next = if cur.is_empty() { name.to_string() } else { format!("{cur}/{name}") };
                    if self.is_file(&next) {
                        return true;
                    }
                    if !self.is_dir(&next) {
                        return false;
                    }
                    cur = next;
                }
            }
        }
        false
    }

    /// Like `resolve`, for a path that must name a directory (`.` and `..` allowed at the end).
    pub fn resolve_dir(&self, base: &str, url: &str) -> Option<String> {
        if url.starts_with('/') || !self.is_dir(base) {
            return None;
        }
        let mut cur: String = base.to_string();
        for c in url.split('/') {
            match c {
                "" | "." => {}
                ".." => {
                    if cur.is_empty() {
                        return None;
                    }
                    cur = parent(&cur).to_string();
                }
                name => {
                    let next = if cur.is_empty() { name.to_string() } else { format!("{cur}/{name}") };
                    if !self.is_dir(&next) {
                        return None;
                    }
                    cur = next;
                }
            }
        }
        Some(cur)
    }

    /// Resolve `url` against directory `base` the way the kernel resolves
    /// `base.join(url)`: every intermediate component must be an existing
    /// directory; `.` stays, `..` goes to the parent.  Returns the canonical
    /// path if the final target is a regular file.  Going above the
    /// simulated root, absolute urls and trailing slashes find nothing.
    pub fn resolve(&self, base: &str, url: &str) -> Option<String> {
        if url.is_empty() || url.starts_with('/') || url.ends_with('/') {
            return None;
        }
        if !self.is_dir(base) {
            return None;
        }
        let mut cur: String = base.to_string();
        let comps: Vec<&str> = url.split('/').collect();
        let last = comps.len() - 1;
        for (i, c) in comps.iter().enumerate() {
            match *c {
                "" | "." => {
                    if i == last {
                        return None; // names a directory
                    }
                }
                ".." => {
                    if cur.is_empty() {
                        return None; // above the simulated root
                    }
                    cur = parent(&cur).to_string();
                    if i == last {
                        return None;
                    }
                }
                name => {
                    let next = if cur.is_empty() {
                        name.to_string()
                    } else {
                        format!("{cur}/{name}")
                    };
                    if i == last {
                        return self.is_file(&next).then_some(next);
                    }
                    if !self.is_dir(&next) {
                        return None;
                    }
                    cur = next;
                }
            }
        }
        None
    }
}

/// What a lookup found.
pub struct Found {
    /// Index of the base directory (or lookup step) that matched.
    pub base: usize,
    /// Canonical identity of the file.
    pub canon: String,
    pub data: Rc<Vec<u8>>,
}

/// The fault-free answer to `Loader::find_file(url)`.
pub trait Store {
    fn lookup(&self, url: &str) -> Option<Found>;
}

/// Mirrors `FsLoader::find_file`: first base where the joined path is a file.
pub struct FsStore {
    pub fs: SimFs,
    pub bases: Vec<String>,
}

impl Store for FsStore {
    fn lookup(&self, url: &str) -> Option<Found> {
        if url.is_empty() {
            return None;
        }
        for (i, b) in self.bases.iter().enumerate() {
            if let Some(canon) = self.fs.resolve(b, url) {
                let data = self.fs.file(&canon).unwrap();
                return Some(Found { base: i, canon, data });
            }
        }
        None
    }
}

/// Mirrors the `TestLoader` of rsass/tests/spec/testrunner.rs (mock table
/// steps only; the fall-through to the real file system is not reproduced).
pub struct CorpusStore {
    pub mock: BTreeMap<String, Rc<Vec<u8>>>,
    pub cwd: String,
}

pub fn url_join(p: &str, c: &str) -> String {
    let c = c.trim_start_matches("./").replace("/./", "/");
    if p.is_empty() {
        c
    } else if c.is_empty() {
        p.to_string()
    } else if p.ends_with('/') {
        format!("{p}{c}")
    } else {
        format!("{p}/{c}")
    }
}

impl Store for CorpusStore {
    fn lookup(&self, name: &str) -> Option<Found> {
        let mut cwd = self.cwd.trim_end_matches('/');
        let mut lname = name;
        while let Some(n) = lname.strip_prefix("../") {
            cwd = cwd.rfind('/').map_or("", |p| &self.cwd[..p]);
            lname = n;
        }
        let tname = url_join(cwd, lname);
        if let Some(d) = self.mock.get(&tname) {
            return Some(Found { base: 0, canon: tname, data: d.clone() });
        }
        if let Some(d) = self.mock.get(lname) {
            return Some(Found { base: 1, canon: lname.to_string(), data: d.clone() });
        }
        None
    }
}

#[cfg(test)]
mod tests {
    use super::*;
    #[test]
    fn posix_lookup() {
        let mut fs = SimFs::new();
        fs.add_file("a.scss", "x");
        fs.add_file("d/b.scss", "y");
        fs.add_dir("e");
        assert_eq!(fs.resolve("", "a.scss").as_deref(), Some("a.scss"));
        assert_eq!(fs.resolve("", "./a.scss").as_deref(), Some("a.scss"));
        assert_eq!(fs.resolve("", "d/../a.scss").as_deref(), Some("a.scss"));
        assert_eq!(fs.resolve("", "e/../a.scss").as_deref(), Some("a.scss"));
        assert_eq!(fs.resolve("", "nope/../a.scss"), None);
        assert_eq!(fs.resolve("", "a.scss/../a.scss"), None);
        assert_eq!(fs.resolve("d", "../a.scss").as_deref(), Some("a.scss"));
        assert_eq!(fs.resolve("d", "b.scss").as_deref(), Some("d/b.scss"));
        assert_eq!(fs.resolve("", "../a.scss"), None);
        assert_eq!(fs.resolve("", "d"), None);
        assert_eq!(fs.resolve("", "d//b.scss").as_deref(), Some("d/b.scss"));
    }
}
