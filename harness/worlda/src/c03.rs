//! C03 — each module is executed once per compilation.

use crate::c02::run_graph;
use crate::core::*;
#[allow(unused_imports)]
use crate::core::StatsExt;
use crate::gen::{exhaustive_c03_count, exhaustive_c03_graph, gen_graph, GraphParams};
use crate::loader::*;
use crate::model::reachable_cycle;
use crate::spec::*;
use serde::{Deserialize, Serialize};
use serde_json::{json, Value as Json};
use std::collections::{BTreeMap, BTreeSet};
use vcommon::Rng;

pub struct C03;

#[derive(Clone, Serialize, Deserialize)]
pub struct Case {
    pub spec: GraphSpec,
    pub chunk: Chunking,
    /// "mixed" scenario: the root reaches modules through meta.load-css BEFORE their first @use
    /// (judged weakly: must compile, users must see the module's members)
    #[serde(default)]
    pub mixed: bool,
}

/// root --load-css--> m, x (in some order, m possibly twice); x --use--> m (directly or through a forwarder f)
fn mixed_spec(rng: &mut Rng) -> GraphSpec {
    let use_m = |url: &str, ns: &str, target: usize| Stmt::Load {
        kind: LoadKind::Use,
        url: url.to_string(),
        target,
        wrap: Wrap::None,
        ns: ns.to_string(),
        with_cfg: false,
        filter: 0,
    };
    let lc = |url: &str, target: usize, wrap: Wrap| Stmt::Load {
        kind: LoadKind::LoadCss,
        url: url.to_string(),
        target,
        wrap,
        ns: String::new(),
        with_cfg: false,
        filter: 0,
    };
    let via_forward = rng.chance(1, 3);
    let partial = rng.chance(1, 3);
    let m_url = if partial { *rng.pick(&["m", "./m", "_m", "d/../m", "_m.scss"]) } else { *rng.pick(&["m", "./m", "m.scss", "d/../m"]) };
    let mut root = vec![];
    let wrap = *rng.pick(&[Wrap::None, Wrap::None, Wrap::If, Wrap::Mixin, Wrap::Rule]);
    match rng.below(4) {
        0 => {
            root.push(lc(m_url, 2, wrap));
            root.push(lc("x", 1, Wrap::None));
        }
        1 => {
            root.push(lc("x", 1, Wrap::None));
            root.push(lc(m_url, 2, wrap));
        }
        2 => {
            root.push(lc(m_url, 2, wrap));
            root.push(lc("x", 1, Wrap::None));
            root.push(lc("m", 2, Wrap::None));
        }
        _ => {
            root.push(lc(m_url, 2, wrap));
            root.push(lc("x", 1, Wrap::None));
            root.push(lc("x", 1, Wrap::None));
        }
    }
    root.push(Stmt::Marker);
    let mut files = vec![FileSpec { path: "w/root.scss".into(), stmts: root }];
    let x_stmts = if via_forward {
        vec![use_m("f", "n0", 3), Stmt::ModuleVars, Stmt::Probe { ns: "n0".into(), target: 2, tag: 1 }]
    } else {
        vec![use_m(if partial { *rng.pick(&["m", "./m", "_m"]) } else { *rng.pick(&["m", "./m", "m.scss"]) }, "n0", 2), Stmt::ModuleVars, Stmt::Probe { ns: "n0".into(), target: 2, tag: 1 }]
    };
    files.push(FileSpec { path: "w/x.scss".into(), stmts: x_stmts });
    files.push(FileSpec { path: if partial { "w/_m.scss".into() } else { "w/m.scss".into() }, stmts: vec![Stmt::ModuleVars] });
    if via_forward {
        files.push(FileSpec {
            path: "w/f.scss".into(),
            stmts: vec![
                Stmt::Load { kind: LoadKind::Forward, url: "m".into(), target: 2, wrap: Wrap::None, ns: String::new(), with_cfg: false, filter: rng.below(3) as u8 },
                Stmt::ModuleVars,
            ],
        });
    }
    GraphSpec { files, extra_dirs: vec!["w/d".into()], bases: vec!["w".into()], fmt: Fmt::draw(rng), merge_imports: false, raw_text: Default::default() }
}

/// root --use--> a, b (in this order); a uses m, changes m's variable and then @imports p, which also
/// uses m; b uses m afterwards.  What the import does with m inside its own output is its business
/// (outside C03's quantifier); but a and b reach m by @use alone and must see ONE instance.
fn mixed_import_spec(rng: &mut Rng) -> GraphSpec {
    let ld = |kind: LoadKind, url: &str, target: usize, ns: &str| Stmt::Load {
        kind,
        url: url.to_string(),
        target,
        wrap: Wrap::None,
        ns: ns.to_string(),
        with_cfg: false,
        filter: 0,
    };
    let m_url = *rng.pick(&["m", "./m", "m.scss", "d/../m"]);
    let value = 7 + rng.below(90) as u32;
    let by_mixin = rng.chance(1, 2);
    // files: 0 root, 1 a, 2 m, 3 b, 4 p
    let root = vec![ld(LoadKind::Use, "a", 1, "na"), ld(LoadKind::Use, "b", 3, "nb"), Stmt::ModuleVars];
    let mut a = vec![ld(LoadKind::Use, m_url, 2, "n0"), Stmt::ModuleVars];
    let p_partial = rng.chance(1, 2);
    let import = ld(LoadKind::Import, if p_partial { *rng.pick(&["p", "./p", "_p", "_p.scss"]) } else { *rng.pick(&["p", "./p", "p.scss"]) }, 4, "");
    let assign = Stmt::Assign { ns: "n0".into(), target: 2, value, wrap: Wrap::None, by_mixin };
    match rng.below(3) {
        0 => {
            a.push(assign);
            a.push(import);
        }
        1 => {
            a.push(import);
            a.push(assign);
        }
        _ => {
            a.push(assign);
            a.push(import.clone());
            a.push(import);
        }
    }
    a.push(Stmt::Probe { ns: "n0".into(), target: 2, tag: 1 });
    let m = vec![Stmt::ModuleVars];
    let b = vec![ld(LoadKind::Use, *rng.pick(&["m", "./m", "m.scss"]), 2, "n0"), Stmt::ModuleVars, Stmt::Probe { ns: "n0".into(), target: 2, tag: 2 }];
    let p = vec![ld(LoadKind::Use, *rng.pick(&["m", "m.scss"]), 2, "z"), Stmt::Probe { ns: "z".into(), target: 2, tag: 3 }];
    let files = vec![
        FileSpec { path: "w/root.scss".into(), stmts: root },
        FileSpec { path: "w/a.scss".into(), stmts: a },
        FileSpec { path: "w/m.scss".into(), stmts: m },
        FileSpec { path: "w/b.scss".into(), stmts: b },
        FileSpec { path: if p_partial { "w/_p.scss".into() } else { "w/p.scss".into() }, stmts: p },
    ];
    let _ = value;
    GraphSpec { files, extra_dirs: vec!["w/d".into()], bases: vec!["w".into()], fmt: Fmt::draw(rng), merge_imports: false, raw_text: Default::default() }
}

fn judge_mixed_import(case: &Case, stats: &mut Stats) -> (Judgement, Option<Outcome>) {
    let spec = &case.spec;
    let plan = FaultPlan::default();
    let o = run_graph(spec, &plan, Chunking::NONE, 4000);
    stats.compiled(&o);
    stats.inc("probe:mixed_import_between_users");
    let css = match &o.res {
        Res::Ok(css) => css.clone(),
        Res::Panic(m) => return (Judgement::fail("no_panic", "mixed_import=1".into(), format!("panic: {m}")), Some(o)),
        Res::Err { class: ErrClass::Parse, .. } => return (Judgement::Unjudged("other_error"), Some(o)),
        Res::Err { text, .. } => {
            let first = text.lines().next().unwrap_or("").chars().take(50).collect::<String>();
            return (
                Judgement::fail("module_unusable", format!("mixed_import=1 error={}", first.replace(' ', "_")), format!("must compile: {}", o.res.short())),
                Some(o),
            );
        }
    };
    let rules = parse_rules(&css);
    let get = |sel: &str, k: &str| rules.get(sel).and_then(|v| v.first()).and_then(|p| p.get(k)).cloned();
    let expect_v = spec.files[1].stmts.iter().find_map(|s| match s {
        Stmt::Assign { value, .. } => Some(value.to_string()),
        _ => None,
    });
    let (ida, idb) = (get("u1-1-t2", "id"), get("u3-2-t2", "id"));
    let vb = get("u3-2-t2", "v");
    if ida.is_none() || idb.is_none() {
        return (Judgement::fail("P1_css_once", "mixed_import=1 user=1".into(), "a user's rule is missing from the output".into()), Some(o));
    }
    if ida != idb {
        return (
            Judgement::fail(
                "P2_one_instance",
                "mixed_import=1".into(),
                format!("a.scss and b.scss both reach m.scss by @use alone but see different instances ({ida:?} vs {idb:?}); a.scss @imports a file that also uses m"),
            ),
            Some(o),
        );
    }
    if vb != expect_v {
        return (
            Judgement::fail(
                "P3_shared_variables",
                "mixed_import=1 read_ns_star=0 read_ns_has_forward=0 assign_ns_has_forward=0".into(),
                format!("b.scss reads $v2 = {vb:?} after a.scss assigned {expect_v:?} (a.scss also @imports a file that uses m)"),
            ),
            Some(o),
        );
    }
    (Judgement::Pass, Some(o))
}

fn judge_mixed(case: &Case, stats: &mut Stats) -> (Judgement, Option<Outcome>) {
    let spec = &case.spec;
    let plan = FaultPlan::default();
    let o = run_graph(spec, &plan, Chunking::NONE, 4000);
    stats.compiled(&o);
    stats.inc("probe:mixed_loadcss_before_use");
    let css = match &o.res {
        Res::Ok(css) => css.clone(),
        Res::Panic(m) => return (Judgement::fail("no_panic", "mixed=1".into(), format!("panic: {m}")), Some(o)),
        Res::Err { class: ErrClass::Parse, .. } => return (Judgement::Unjudged("other_error"), Some(o)),
        Res::Err { text, .. } => {
            let first = text.lines().next().unwrap_or("").chars().take(50).collect::<String>();
            return (
                Judgement::fail(
                    "module_unusable",
                    format!("mixed=1 error={}", first.replace(' ', "_")),
                    format!("a module that was loaded by meta.load-css before its first @use cannot be used: {}", o.res.short()),
                ),
                Some(o),
            );
        }
    };
    let rules = parse_rules(&css);
    let x_runs = spec.files[0].stmts.iter().filter(|s| matches!(s, Stmt::Load { target: 1, .. })).count();
    let probes = rules.get("u1-1-t2").cloned().unwrap_or_default();
    if probes.len() != x_runs {
        return (
            Judgement::fail("P1_css_once", "mixed=1 user=1".into(), format!("the user's rule occurs {} times for {x_runs} load-css calls", probes.len())),
            Some(o),
        );
    }
    let ids: Vec<String> = rules.get("m2").map(|v| v.iter().filter_map(|p| p.get("id").cloned()).collect()).unwrap_or_default();
    for p in &probes {
        if p.get("v").map(String::as_str) != Some("0") || !p.get("id").is_some_and(|i| ids.contains(i)) {
            return (
                Judgement::fail(
                    "P2_one_instance",
                    "mixed=1".into(),
                    format!("the user of module m sees id {:?} / v {:?}, but m's instances printed ids {:?}", p.get("id"), p.get("v"), ids),
                ),
                Some(o),
            );
        }
    }
    (Judgement::Pass, Some(o))
}

/// Modules whose members are visible through a namespace for `t`:
/// `t` itself and, transitively, everything it forwards.
fn visible(g: &GraphSpec, t: usize, out: &mut BTreeSet<usize>) {
    if !out.insert(t) {
        return;
    }
    for s in &g.files[t].stmts {
        if let Stmt::Load { kind: LoadKind::Forward, target, .. } = s {
            visible(g, *target, out);
        }
    }
}

/// Is the last component of `url` a plain name (`f3`), so that the default
/// namespace is unambiguous whatever the implementation does with extensions and underscores?
fn plain_last_component(url: &str) -> bool {
    let last = url.rsplit('/').next().unwrap_or("");
    last.len() > 1 && last.starts_with('f') && last[1..].chars().all(|c| c.is_ascii_digit())
}

fn add_probes(g: &mut GraphSpec, assign_via_forward: bool, rng: &mut Rng) {
    let mut value = 100u32;
    let mut tag = 0u32;
    let css: Vec<bool> = g.files.iter().map(|f| f.path.ends_with(".css")).collect();
    for i in 0..g.files.len() {
        // namespace variety: at most one `as *` and one default namespace per file
        let mut star_done = false;
        let mut keep_done = false;
        for s in g.files[i].stmts.iter_mut() {
            if let Stmt::Load { kind: LoadKind::Use, ns, url, .. } = s {
                match rng.below(6) {
                    0 if !star_done => {
                        *ns = "*".into();
                        star_done = true;
                    }
                    1 if !keep_done && plain_last_component(url) => {
                        *ns = String::new();
                        keep_done = true;
                    }
                    _ => {}
                }
            }
        }
        // configuration: on a first load it configures, on a later load of the same module it must
        // not execute the module again (rsass ignores it there; an error would leave the run unjudged)
        for s in g.files[i].stmts.iter_mut() {
            match s {
                Stmt::Load { kind: LoadKind::Use, ns, with_cfg, target, .. } if ns.is_empty() && !css[*target] => {
                    *with_cfg = rng.chance(1, 2);
                }
                Stmt::Load { kind: LoadKind::Forward, with_cfg, filter, target, .. } if !css[*target] => {
                    *with_cfg = rng.chance(1, 6);
                    // a third of the forwards filter (without hiding anything that is visible otherwise)
                    *filter = match rng.below(8) {
                        0 => 1,
                        1 => 2,
                        // members get a prefix on the way through (`as q<t>-*`)
                        2 => 3,
                        _ => 0,
                    };
                }
                _ => {}
            }
        }
        let uses: Vec<(String, usize)> = g.files[i]
            .stmts
            .iter()
            .filter_map(|s| match s {
                Stmt::Load { kind: LoadKind::Use, ns, target, .. } => Some((ns.clone(), *target)),
                _ => None,
            })
            .collect();
        let mut extra: Vec<Stmt> = vec![];
        for (ns, t) in &uses {
            let mut vis = BTreeSet::new();
            visible(g, *t, &mut vis);
            // plain css modules have css but no members to read or assign
            let vis: Vec<usize> = vis.into_iter().filter(|x| !g.files[*x].path.ends_with(".css")).collect();
            if vis.is_empty() || g.files[*t].path.ends_with(".css") {
                continue;
            }
            let n = rng.range(1, 3);
            for _ in 0..n {
                match rng.below(4) {
                    0 => {
                        let target = if assign_via_forward && vis.len() > 1 && rng.chance(1, 2) {
                            *rng.pick(&vis)
                        } else {
                            *t
                        };
                        value += 1;
                        if ns == "*" {
                            // `$v: x` next to `@use ... as *` is a different question (local or module variable?)
                            continue;
                        }
                        // (namespaced assignments inside blocks are not parsed by this rsass, so they stay at top level)
                        // a third of the assignments happen inside the module (mixin with !global)
                        extra.push(Stmt::Assign { ns: ns.clone(), target, value, wrap: Wrap::None, by_mixin: rng.chance(1, 3) });
                    }
                    _ => {
                        tag += 1;
                        extra.push(Stmt::Probe { ns: ns.clone(), target: *rng.pick(&vis), tag });
                    }
                }
            }
        }
        rng.shuffle(&mut extra);
        for e in extra {
            let pos = rng.usize(g.files[i].stmts.len() + 1);
            g.files[i].stmts.insert(pos, e);
        }
    }
}

#[derive(Default)]
struct Expect {
    /// (file, tag, target) -> expected v, plus classification tokens
    probes: Vec<(usize, u32, usize, u32, String)>,
    executed: Vec<usize>,
}

struct M<'a> {
    g: &'a GraphSpec,
    loaded: Vec<bool>,
    loaded_seq: Vec<u64>,
    v: Vec<u32>,
    last_assign_seq: Vec<u64>,
    assign_via_forward: Vec<bool>,
    assign_ns_has_forward: Vec<bool>,
    assigned_by_mixin: Vec<bool>,
    seq: u64,
    ex: Expect,
}

impl M<'_> {
    fn ns_target(&self, file: usize, ns: &str) -> usize {
        self.g.files[file]
            .stmts
            .iter()
            .find_map(|s| match s {
                Stmt::Load { kind: LoadKind::Use, ns: n, target, .. } if n == ns => Some(*target),
                _ => None,
            })
            .unwrap_or(usize::MAX)
    }
    fn has_forward(&self, f: usize) -> bool {
        self.g.files[f]
            .stmts
            .iter()
            .any(|s| matches!(s, Stmt::Load { kind: LoadKind::Forward, .. }))
    }
    fn exec(&mut self, f: usize) {
        self.ex.executed.push(f);
        for s in &self.g.files[f].stmts {
            if let Stmt::Load { target, .. } = s {
                if !self.loaded[*target] {
                    self.loaded[*target] = true;
                    self.exec(*target);
                    self.seq += 1;
                    self.loaded_seq[*target] = self.seq;
                }
            }
        }
        for s in &self.g.files[f].stmts {
            match s {
                Stmt::ModuleVars => self.v[f] = 0,
                Stmt::Assign { ns, target, value, by_mixin, .. } => {
                    self.seq += 1;
                    self.v[*target] = *value;
                    self.last_assign_seq[*target] = self.seq;
                    if *by_mixin {
                        // the mixin runs in the module itself: whatever namespace it was reached
                        // through, it is the module's own variable that changes
                        self.assigned_by_mixin[*target] = true;
                        self.assign_via_forward[*target] = false;
                        self.assign_ns_has_forward[*target] = false;
                        continue;
                    }
                    self.assigned_by_mixin[*target] = false;
                    let nt = self.ns_target(f, ns);
                    if nt != *target {
                        self.assign_via_forward[*target] = true;
                    }
                    if nt != usize::MAX && self.has_forward(nt) {
                        self.assign_ns_has_forward[*target] = true;
                    }
                }
                Stmt::Probe { ns, target, tag } => {
                    let nt = self.ns_target(f, ns);
                    let via = nt != *target;
                    let after = via
                        && nt != usize::MAX
                        && self.last_assign_seq[*target] > self.loaded_seq[nt];
                    let toks = format!(
                        "read_ns_star={} read_via_forward={} assigned_after_forwarder_loaded={} assign_via_forward={} read_ns_has_forward={} assign_ns_has_forward={} assigned_by_mixin={}",
                        u8::from(ns == "*"),
                        u8::from(via),
                        u8::from(after),
                        u8::from(self.assign_via_forward[*target]),
                        u8::from(nt != usize::MAX && self.has_forward(nt)),
                        u8::from(self.assign_ns_has_forward[*target]),
                        u8::from(self.assigned_by_mixin[*target])
                    );
                    self.ex.probes.push((f, *tag, *target, self.v[*target], toks));
                }
                _ => {}
            }
        }
    }
}

fn model(g: &GraphSpec) -> Expect {
    let n = g.files.len();
    let mut m = M {
        g,
        loaded: vec![false; n],
        loaded_seq: vec![0; n],
        v: vec![0; n],
        last_assign_seq: vec![0; n],
        assign_via_forward: vec![false; n],
        assign_ns_has_forward: vec![false; n],
        assigned_by_mixin: vec![false; n],
        seq: 0,
        ex: Expect::default(),
    };
    m.loaded[0] = true;
    m.exec(0);
    m.ex
}

/// Parse the (simple, generated) CSS into selector -> list of property maps.
pub fn parse_rules(css: &str) -> BTreeMap<String, Vec<BTreeMap<String, String>>> {
    let mut out: BTreeMap<String, Vec<BTreeMap<String, String>>> = BTreeMap::new();
    for chunk in css.split('}') {
        let Some((sel, body)) = chunk.split_once('{') else { continue };
        let mut props = BTreeMap::new();
        for decl in body.split(';') {
            if let Some((k, v)) = decl.split_once(':') {
                props.insert(k.trim().to_string(), v.trim().to_string());
            }
        }
        out.entry(sel.trim().to_string()).or_default().push(props);
    }
    out
}

fn alias_tokens(g: &GraphSpec, target: usize) -> String {
    // how the module is spelled across the graph
    let urls: BTreeSet<&str> = g
        .loads()
        .filter_map(|(_, s)| match s {
            Stmt::Load { url, target: t, .. } if *t == target => Some(url.as_str()),
            _ => None,
        })
        .collect();
    let alias = urls.iter().any(|u| !crate::model::is_canonical_spelling(u));
    format!("spellings={} alias={}", urls.len(), u8::from(alias))
}

pub fn judge(case: &Case, stats: &mut Stats) -> (Judgement, Option<Outcome>) {
    if case.mixed {
        // the two hand-built families are told apart by their shape
        return if case.spec.files.len() == 5 && case.spec.files[4].path.ends_with("p.scss") { judge_mixed_import(case, stats) } else { judge_mixed(case, stats) };
    }
    let spec = &case.spec;
    if reachable_cycle(spec) {
        return (Judgement::Unjudged("cyclic"), None);
    }
    let ex = model(spec);
    let loads = spec.loads().count() as u64;
    let budget = 64 * (loads * 4 + 2);
    let plan = FaultPlan::default();
    let o = run_graph(spec, &plan, Chunking::NONE, budget);
    stats.compiled(&o);
    if o.budget_hit {
        return (
            Judgement::fail("liveness", "budget=1".into(), format!("no end within {budget} lookups")),
            Some(o),
        );
    }
    let css = match &o.res {
        Res::Ok(css) => css.clone(),
        Res::Panic(m) => {
            return (Judgement::fail("no_panic", String::new(), format!("panic: {m}")), Some(o))
        }
        Res::Err { class: ErrClass::Parse, .. } => {
            // generated syntax this rsass does not parse: says nothing about module execution
            stats.inc("other_error");
            stats.inc(&format!("other_error:{}", o.res.short().chars().take(70).collect::<String>()));
            return (Judgement::Unjudged("other_error"), Some(o));
        }
        Res::Err { text, .. } => {
            // Only graphs that must compile are generated (acyclic, every url resolves, every member read
            // is visible), and the unchanged tree compiles all of them: an error means that some user
            // could not see a module's members - the module was not executed for it, or it was handed
            // something else than the module.
            let first = text.lines().next().unwrap_or("").chars().take(50).collect::<String>();
            return (
                Judgement::fail(
                    "module_unusable",
                    format!("error={}", first.replace(' ', "_")),
                    format!("a use/forward graph that must compile failed: {}", o.res.short()),
                ),
                Some(o),
            );
        }
    };
    let rules = parse_rules(&css);
    let multi = spec.files.iter().enumerate().any(|(t, _)| {
        spec.loads().filter(|(_, s)| matches!(s, Stmt::Load{target, ..} if *target == t)).count() > 1
    });
    if multi {
        stats.inc("probe:module_loaded_from_several_places");
    }
    // P1: the marker of every executed module occurs exactly once
    for &f in &ex.executed {
        let n = rules.get(&format!("m{f}")).map_or(0, Vec::len);
        if n != 1 {
            return (
                Judgement::fail(
                    "P1_css_once",
                    format!("count={n} {}", alias_tokens(spec, f)),
                    format!("CSS of module {} occurs {n} times in the output (expected once)", spec.files[f].path),
                ),
                Some(o),
            );
        }
    }
    // users' probe rules once each
    for (f, tag, t, _, _) in &ex.probes {
        if !ex.executed.contains(f) {
            continue;
        }
        let n = rules.get(&format!("u{f}-{tag}-t{t}")).map_or(0, Vec::len);
        if n != 1 {
            return (
                Judgement::fail(
                    "P1_css_once",
                    format!("count={n} user=1 {}", alias_tokens(spec, *f)),
                    format!("CSS of user {} occurs {n} times (expected once)", spec.files[*f].path),
                ),
                Some(o),
            );
        }
    }
    // a probe that names a module the model never executed (only possible in
    // shrunk cases) takes the case out of scope
    if ex.probes.iter().any(|(f, _, t, _, _)| {
        !ex.executed.contains(t) || !ex.executed.contains(f)
    }) {
        return (Judgement::Unjudged("dangling_probe"), Some(o));
    }
    // P2: one instance — every id printed for module t equals its marker's
    for (f, tag, t, _, toks) in &ex.probes {
        let own = &rules[&format!("m{t}")][0]["id"];
        let seen = &rules[&format!("u{f}-{tag}-t{t}")][0]["id"];
        if own != seen {
            return (
                Judgement::fail(
                    "P2_one_instance",
                    format!("{toks} {}", alias_tokens(spec, *t)),
                    format!(
                        "{} sees an instance of module {} that is not the one whose CSS was emitted",
                        spec.files[*f].path, spec.files[*t].path
                    ),
                ),
                Some(o),
            );
        }
        stats.inc("probe:id_compared");
    }
    // P3: shared variables
    for (f, tag, t, v, toks) in &ex.probes {
        let seen = &rules[&format!("u{f}-{tag}-t{t}")][0]["v"];
        if toks.contains("read_via_forward=1") {
            stats.inc("probe:read_via_forward");
        }
        if toks.contains("read_ns_star=1") {
            stats.inc("probe:read_through_star");
        }
        if *v != 0 {
            stats.inc("probe:read_after_assignment");
        }
        if toks.contains("assigned_by_mixin=1") {
            stats.inc("probe:assigned_by_module_mixin");
        }
        if *seen != v.to_string() {
            return (
                Judgement::fail(
                    "P3_shared_variables",
                    format!("{toks} {}", alias_tokens(spec, *t)),
                    format!(
                        "{} reads $v{t} = {seen} but the value assigned last was {v}",
                        spec.files[*f].path
                    ),
                ),
                Some(o),
            );
        }
    }
    if case.chunk.is_benign_noise() {
        let o2 = run_graph(spec, &plan, case.chunk, budget);
        stats.compiled(&o2);
        let same = match &o2.res {
            Res::Ok(css2) => {
                // ids differ between compilations: compare with ids normalised
                normalise_ids(css2) == normalise_ids(&css)
            }
            _ => false,
        };
        if !same {
            return (
                Judgement::fail(
                    "benign_changed_result",
                    String::new(),
                    format!("short reads / EINTR changed the result: {}", o2.res.short()),
                ),
                Some(o2),
            );
        }
    }
    (Judgement::Pass, Some(o))
}

/// Replace unique ids by their order of first appearance.
pub fn normalise_ids(css: &str) -> String {
    let mut seen: Vec<String> = vec![];
    let mut out = String::new();
    let mut rest = css;
    while let Some(p) = rest.find("id:") {
        let (a, b) = rest.split_at(p + 3);
        out.push_str(a);
        let b2 = b.trim_start();
        let end = b2.find(|c: char| !(c.is_ascii_alphanumeric() || c == '_' || c == '-')).unwrap_or(b2.len());
        let id = &b2[..end];
        let k = seen.iter().position(|s| s == id).unwrap_or_else(|| {
            seen.push(id.to_string());
            seen.len() - 1
        });
        out.push_str(&format!(" #{k}"));
        rest = &b2[end..];
    }
    out.push_str(rest);
    out
}

fn to_violations(case: &Case, j: Judgement, o: Option<&Outcome>) -> Vec<Violation> {
    match j {
        Judgement::Fail { oracle, signature, detail } => {
            let mut cj = serde_json::to_value(case).unwrap();
            let fs = case.spec.build_fs();
            cj["files_rendered"] = Json::Object(
                fs.files().map(|(p, d)| (p.clone(), json!(String::from_utf8_lossy(d)))).collect(),
            );
            if let Some(o) = o {
                cj["history"] = serde_json::to_value(&o.history).unwrap();
                if let Res::Ok(css) = &o.res {
                    cj["output_ids_normalised"] = json!(normalise_ids(css));
                }
            }
            vec![Violation {
                property: "C03".into(),
                oracle,
                signature,
                detail,
                case: cj,
                seed: 0,
                index: 0,
                minimised: false,
                shrink_steps: 0,
            }]
        }
        _ => vec![],
    }
}

fn params(index: u64, rng: &mut Rng) -> (GraphParams, bool) {
    let nfiles = match index % 4 {
        0 => 2,
        1 => 3,
        2 => 4,
        _ => 1 + rng.usize(4),
    };
    let kinds = match (index / 4) % 3 {
        0 => vec![LoadKind::Use],
        1 => vec![LoadKind::Use, LoadKind::Forward],
        _ => vec![LoadKind::Use, LoadKind::Use, LoadKind::Forward],
    };
    let noise = if (index / 12) % 2 == 0 { Noise::Alias } else { Noise::Canonical };
    let assign_via_forward = (index / 24) % 6 == 0;
    (
        GraphParams {
            nfiles,
            kinds,
            noise,
            cyclic: false,
            nlp: rng.usize(3),
            wrappers: false,
            density_q: rng.range(2, 10),
            c03: true,
            subdir_loadpath: rng.chance(1, 8),
            chain: false,
        },
        assign_via_forward,
    )
}

impl Prop for C03 {
    fn id(&self) -> &'static str {
        "C03"
    }
    fn level(&self) -> &'static str {
        "exploration"
    }
    fn runs(&self, tier: Tier) -> u64 {
        match tier {
            Tier::Quick => 60_000,
            Tier::Thorough => 3_000_000,
        }
    }
    fn run(&self, seed: u64, index: u64, _tier: Tier, stats: &mut Stats) -> Vec<Violation> {
        let mut rng = Rng::new(seed);
        let (p, avf) = params(index, &mut rng);
        // runs 0..EXH: every acyclic use/forward graph over up to 3 files (incl. double loads of one
        // module under two spellings), each under 8 draws of spellings, namespaces, probes and assignments
        let exh = 8 * (exhaustive_c03_count(1) + exhaustive_c03_count(2) + exhaustive_c03_count(3));
        let exhaustive = index < exh;
        let mixed = !exhaustive && index % 16 == 5;
        let mut spec = if exhaustive {
            let k = index / 8;
            let (n, code) = if k < 1 {
                (1, 0)
            } else if k < 1 + exhaustive_c03_count(2) {
                (2, k - 1)
            } else {
                (3, k - 1 - exhaustive_c03_count(2))
            };
            stats.inc("probe:exhaustive_small_graphs");
            exhaustive_c03_graph(n, code, index % 8, &mut rng)
        } else if mixed {
            if index % 32 == 5 { mixed_import_spec(&mut rng) } else { mixed_spec(&mut rng) }
        } else {
            gen_graph(&p, &mut rng)
        };
        if !mixed {
            add_probes(&mut spec, avf, &mut rng);
        }
        let chunk = if rng.chance(1, 4) { Chunking::draw_for_generated(&mut rng) } else { Chunking::NONE };
        let case = Case { spec, chunk, mixed };
        stats.inc("runs");
        stats.inc(&format!(
            "stratum:n{}/{}/{}{}",
            p.nfiles,
            if p.kinds.contains(&LoadKind::Forward) { "use+forward" } else { "use" },
            if p.noise == Noise::Alias { "alias" } else { "canon" },
            if avf { "/assign-via-forward" } else { "" }
        ));
        let (j, o) = judge(&case, stats);
        match &j {
            Judgement::Pass | Judgement::Fail { .. } => stats.inc("judged"),
            Judgement::Unjudged(_) => stats.inc("unjudged"),
        }
        if let Some(o) = &o {
            if case.spec.loads().next().is_some() {
                // ids are process-global counters: digest the history and the normalised output
                let mut d = vcommon::Digest::new();
                for e in &o.history {
                    d.str(&format!("{e:?}"));
                }
                if let Res::Ok(css) = &o.res {
                    d.str(&normalise_ids(css));
                }
                stats.nontrivial(d.finish());
            }
            stats.sample(4, || {
                json!({
                    "seed": vcommon::hex(seed),
                    "index": index,
                    "files": case.spec.files.iter().enumerate().map(|(i, f)| json!({"path": f.path, "text": case.spec.render_file(i)})).collect::<Vec<_>>(),
                    "bases": case.spec.bases,
                    "history": o.history,
                    "result": match &o.res { Res::Ok(css) => normalise_ids(css), r => r.short() },
                })
            });
        }
        to_violations(&case, j, o.as_ref())
    }
    fn replay(&self, case: &Json, stats: &mut Stats) -> Vec<Violation> {
        let Ok(case) = serde_json::from_value::<Case>(case.clone()) else {
            return vec![];
        };
        let (j, o) = judge(&case, stats);
        to_violations(&case, j, o.as_ref())
    }
    fn shrink_candidates(&self, case: &Json) -> Vec<Json> {
        let Ok(case) = serde_json::from_value::<Case>(case.clone()) else {
            return vec![];
        };
        let mut out = vec![];
        if case.chunk != Chunking::NONE {
            out.push(serde_json::to_value(Case { spec: case.spec.clone(), chunk: Chunking::NONE, mixed: case.mixed }).unwrap());
        }
        for g in graph_shrinks(&case.spec) {
            if case.mixed {
                break;
            }
            out.push(serde_json::to_value(Case { spec: g, chunk: case.chunk, mixed: false }).unwrap());
        }
        out
    }
    fn evidence_extra(&self, stats: &Stats) -> Json {
        crate::core::world_a_extra(stats)
    }
    fn rule(&self) -> String {
        "Runs 0..1048 enumerate EVERY acyclic @use/@forward graph over up to 3 files in which a pair of files carries nothing, one @use, one @forward, two @uses under two spellings, or a @use and a @forward (1 + 5 + 125 graphs), each under 8 draws of spellings, namespaces, probes and assignments. Every other run = one generated acyclic @use/@forward graph (1-4 files, canonical or aliased url spellings, look-alike file names, 0-2 load paths; every 16th: modules reached by meta.load-css before their first @use) in which every module defines $id<i>: unique-id() and $v<i>: 0 and emits a marker rule, and users print and assign module variables through their namespaces; compiled by the real library through SimLoader and judged against a reference executor that runs each module once. Non-trivial = at least one load; distinct = distinct digests of (loader history, output with ids normalised).".into()
    }
    fn assumptions(&self) -> Vec<String> {
        vec![
            "SimFs has POSIX lexical path semantics without symlinks".into(),
            "unique-id() values are only compared for equality".into(),
            "CSS order is not judged; only multiplicity and variable values".into(),
            "reads through a forwarder after a later assignment are a known finding (forwarded variables are snapshots) and are classified separately".into(),
        ]
    }
    fn sanity(&self, stats: &Stats, _tier: Tier) -> Vec<String> {
        let mut errs = vec![];
        let judged = stats.c.get("judged");
        let runs = stats.c.get("runs");
        if runs > 0 && judged * 10 < runs * 9 {
            errs.push(format!("only {judged} of {runs} runs were judged (<90%)"));
        }
        for p in ["probe:module_loaded_from_several_places", "probe:id_compared", "probe:read_after_assignment", "probe:read_via_forward", "probe:mixed_loadcss_before_use", "probe:mixed_import_between_users", "probe:assigned_by_module_mixin", "probe:exhaustive_small_graphs"] {
            if runs >= 1000 && stats.c.get(p) == 0 {
                errs.push(format!("probe {p} stuck at zero"));
            }
        }
        errs
    }
}
