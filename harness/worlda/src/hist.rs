//! Process histories: a sequence of compilations executed one after another
//! in ONE fresh child process (real std primitives, real process-wide
//! statics), some of them on freshly spawned OS threads.  `hist-run` is the
//! child side; `run_history` the parent side.

use crate::loader::*;
use crate::simfs::CorpusStore;
use serde::{Deserialize, Serialize};
use std::io::{Read, Write};
use std::panic::{catch_unwind, AssertUnwindSafe};
use std::process::{Command, Stdio};
use std::rc::Rc;
use vcommon::pool::Item;

#[derive(Clone, Debug, PartialEq, Serialize, Deserialize)]
pub struct Step {
    pub item: Item,
    pub chunk: Chunking,
    /// a hard loader fault that aborts this compilation (it is then only a predecessor)
    pub plan: FaultPlan,
    /// run this compilation on a freshly spawned OS thread (joined before the next step)
    pub thread: bool,
    /// compare this compilation with the fresh-process reference (otherwise it is only a predecessor)
    #[serde(default)]
    pub subject: bool,
    /// seed the (thread-local) generator of the compiling thread first — the injected "unlucky draw"
    #[serde(default)]
    pub fastrand_seed: Option<u64>,
    /// the clock rsass would read during this compilation: (monotonic ns, wall ns, step per reading);
    /// None = the fixed reference clock.  Between two steps the wall clock may jump backwards.
    #[serde(default)]
    pub clock: Option<(u64, u64, u64)>,
}

/// The clock every reference compilation runs under.
pub const REF_CLOCK: (u64, u64, u64) = (1_000_000, 1_700_000_000_000_000_000, 1_000);

/// A clock for a non-reference compilation: other epoch, other granularity, possibly before 1970+1s.
pub fn draw_clock(rng: &mut vcommon::Rng) -> (u64, u64, u64) {
    let wall = match rng.below(4) {
        0 => 0,
        1 => 1_700_000_000_000_000_000 - rng.below(1 << 50),
        2 => 4_102_444_800_000_000_000 + rng.below(1 << 40), // after 2100
        _ => rng.below(1 << 62),
    };
    (rng.below(1 << 44), wall, *rng.pick(&[0u64, 1, 1_000, 1_000_000_000, 86_400_000_000_000]))
}

impl Step {
    pub fn plain(item: Item) -> Step {
        Step { item, chunk: Chunking::NONE, plan: FaultPlan::default(), thread: false, subject: true, fastrand_seed: None, clock: None }
    }
}

#[derive(Clone, Debug, PartialEq, Serialize, Deserialize)]
pub struct StepResult {
    pub res: Res,
    pub delivered: usize,
    /// how often rsass read a clock during this compilation
    #[serde(default)]
    pub clock_reads: u64,
}

pub fn compile_step(step: &Step) -> StepResult {
    if let Some(s) = step.fastrand_seed {
        fastrand::seed(s);
    }
    let (m, w, st) = step.clock.unwrap_or(REF_CLOCK);
    rsass_verif_sync::time::sim::set(m, w, st);
    let reads0 = rsass_verif_sync::time::sim::reads();
    let it = &step.item;
    if it.via_cwd {
        let res = compile_in_cwd(it);
        return StepResult { res, delivered: 0, clock_reads: rsass_verif_sync::time::sim::reads() - reads0 };
    }
    let mock = it.files.iter().map(|(k, v)| (k.clone(), Rc::new(v.clone().into_bytes()))).collect();
    let o = run_job(&Job {
        store: Rc::new(CorpusStore { mock, cwd: it.cwd.clone() }),
        root_name: "input.scss",
        root_canon: "input.scss",
        root_data: Rc::new(it.input.clone().into_bytes()),
        fmt: Fmt { compressed: it.fmt.compressed, precision: it.fmt.precision },
        plan: &step.plan,
        chunk: step.chunk,
        budget: 200_000,
    });
    StepResult { res: o.res, delivered: o.delivered.len(), clock_reads: rsass_verif_sync::time::sim::reads() - reads0 }
}

/// The item's files written to a real directory of their own, `chdir` there, and compiled through
/// `FsLoader::for_cwd()` (what `rsass::compile_scss` and `FsContext::for_cwd` use).
fn compile_in_cwd(it: &Item) -> Res {
    use rsass::input::{Context, FsLoader, SourceFile, SourceName};
    static N: std::sync::atomic::AtomicU64 = std::sync::atomic::AtomicU64::new(0);
    let k = N.fetch_add(1, std::sync::atomic::Ordering::Relaxed);
    let top = std::path::PathBuf::from(format!("{}/.scratch/c05cwd", vcommon::verif_dir()));
    let dir = top.join(format!("{}-{k}", std::process::id()));
    let _ = std::fs::remove_dir_all(&dir);
    if std::fs::create_dir_all(&dir).is_err() {
        return Res::Panic("harness: cannot create the scratch directory".into());
    }
    for (p, text) in &it.files {
        let full = dir.join(p);
        if let Some(parent) = full.parent() {
            let _ = std::fs::create_dir_all(parent);
        }
        let _ = std::fs::write(full, text);
    }
    let _ = std::fs::write(dir.join("input.scss"), &it.input);
    if std::env::set_current_dir(&dir).is_err() {
        return Res::Panic("harness: chdir failed".into());
    }
    let fmt = Fmt { compressed: it.fmt.compressed, precision: it.fmt.precision };
    // through the crate's public entry points, which is what an embedding program calls:
    // compile_scss (root "-", FsContext::for_cwd), compile_scss_path (FsContext::for_path), or the
    // pieces by hand - which of the three is a property of the item, so the reference uses the same
    let which = it.digest() % 3;
    let r = catch_unwind(AssertUnwindSafe(|| {
        let r = match which {
            0 => rsass::compile_scss(it.input.as_bytes(), fmt.format()),
            1 => rsass::compile_scss_path(std::path::Path::new("input.scss"), fmt.format()),
            _ => std::fs::File::open("input.scss")
                .map_err(|e| rsass::Error::from(rsass::input::LoadError::Input("input.scss".into(), e)))
                .and_then(|mut f| SourceFile::read(&mut f, SourceName::root("input.scss")).map_err(rsass::Error::from))
                .and_then(|src| Context::for_loader(FsLoader::for_cwd()).with_format(fmt.format()).transform(src)),
        };
        match r {
            Ok(b) => Res::Ok(String::from_utf8_lossy(&b).into_owned()),
            Err(e) => Res::Err { class: classify(&e), text: e.to_string() },
        }
    }));
    // leave the directory before it is removed: the next compilation runs somewhere else
    let _ = std::env::set_current_dir(&top);
    let _ = std::fs::remove_dir_all(&dir);
    COMPILED_HERE.store(true, std::sync::atomic::Ordering::Relaxed);
    match r {
        Ok(r) => r,
        Err(_) => Res::Panic(last_panic()),
    }
}

fn run_steps(steps: &[Step], mut emit: impl FnMut(&str)) {
    for s in steps {
        let r = if s.thread {
            let s2 = s.clone();
            std::thread::Builder::new()
                .stack_size(std::env::var("VERIF_THREAD_STACK_MB").ok().and_then(|s| s.parse::<usize>().ok()).map_or(256 << 20, |mb| mb << 20))
                .spawn(move || {
                    install_panic_hook();
                    compile_step(&s2)
                })
                .unwrap()
                .join()
                .unwrap_or(StepResult { res: Res::Panic("thread died".into()), delivered: 0, clock_reads: 0 })
        } else {
            compile_step(s)
        };
        // one line per step, so that partial progress is visible if a later step aborts the process
        emit(&format!("STEP {}\n", serde_json::to_string(&r).unwrap()));
    }
    emit("END\n");
}

/// Child side (exec variant): read `[Step]` as JSON on stdin, print results on stdout.
fn cmd_hist_run() -> i32 {
    let mut text = String::new();
    std::io::stdin().read_to_string(&mut text).unwrap();
    let steps: Vec<Step> = match serde_json::from_str(&text) {
        Ok(s) => s,
        Err(e) => {
            eprintln!("HARNESS-ERROR: hist-run: {e}");
            return 2;
        }
    };
    run_steps(&steps, |line| {
        let mut o = std::io::stdout();
        let _ = o.write_all(line.as_bytes());
        let _ = o.flush();
    });
    0
}

pub fn extra(cmd: &str, _args: &[String]) -> Option<i32> {
    match cmd {
        "hist-run" => Some(cmd_hist_run()),
        _ => None,
    }
}

pub struct HistoryOutcome {
    pub results: Vec<StepResult>,
    /// the child died before finishing (signal / abort): index of the step it died in
    pub died_at: Option<usize>,
    pub status: String,
}

fn parse_child_output(text: &str) -> (Vec<StepResult>, bool) {
    let mut results = vec![];
    let mut ended = false;
    for line in text.lines() {
        if let Some(r) = line.strip_prefix("STEP ") {
            if let Ok(sr) = serde_json::from_str::<StepResult>(r) {
                results.push(sr);
            }
        } else if line == "END" {
            ended = true;
        }
    }
    (results, ended)
}

/// Parent side: run the steps in a fresh child process.
///
/// As long as this process has never compiled anything itself, a `fork()`ed
/// child *is* a fresh process as far as rsass is concerned (no static of
/// rsass has been touched), and costs a fraction of fork+exec; otherwise the
/// binary is re-executed.
pub fn run_history(steps: &[Step]) -> HistoryOutcome {
    if COMPILED_HERE.load(std::sync::atomic::Ordering::Relaxed) || std::env::var_os("VERIF_HIST_EXEC").is_some() {
        return run_history_exec(steps);
    }
    let mut fds = [0i32; 2];
    // SAFETY: plain POSIX calls; the child only runs `run_steps`, writes to its pipe end and `_exit`s.
    unsafe {
        if libc::pipe(fds.as_mut_ptr()) != 0 {
            return run_history_exec(steps);
        }
        let pid = libc::fork();
        if pid < 0 {
            libc::close(fds[0]);
            libc::close(fds[1]);
            return run_history_exec(steps);
        }
        if pid == 0 {
            libc::close(fds[0]);
            let w = fds[1];
            run_steps(steps, |line| {
                let b = line.as_bytes();
                let mut off = 0;
                while off < b.len() {
                    let n = libc::write(w, b[off..].as_ptr().cast(), b.len() - off);
                    if n <= 0 {
                        break;
                    }
                    off += n as usize;
                }
            });
            libc::_exit(0);
        }
        libc::close(fds[1]);
        let mut buf = Vec::new();
        let mut chunk = [0u8; 65536];
        loop {
            let n = libc::read(fds[0], chunk.as_mut_ptr().cast(), chunk.len());
            if n > 0 {
                buf.extend_from_slice(&chunk[..n as usize]);
            } else if n == 0 {
                break;
            } else if std::io::Error::last_os_error().kind() != std::io::ErrorKind::Interrupted {
                break;
            }
        }
        libc::close(fds[0]);
        let mut status = 0i32;
        while libc::waitpid(pid, &mut status, 0) < 0
            && std::io::Error::last_os_error().kind() == std::io::ErrorKind::Interrupted
        {}
        let ok = libc::WIFEXITED(status) && libc::WEXITSTATUS(status) == 0;
        let (results, ended) = parse_child_output(&String::from_utf8_lossy(&buf));
        let died_at = if ended && ok { None } else { Some(results.len()) };
        let status = if libc::WIFSIGNALED(status) {
            format!("signal {}", libc::WTERMSIG(status))
        } else {
            format!("exit {}", libc::WEXITSTATUS(status))
        };
        HistoryOutcome { results, died_at, status }
    }
}

fn run_history_exec(steps: &[Step]) -> HistoryOutcome {
    let exe = std::env::current_exe().unwrap();
    let mut child = Command::new(exe)
        .arg("hist-run")
        .stdin(Stdio::piped())
        .stdout(Stdio::piped())
        .stderr(Stdio::null())
        .spawn()
        .expect("spawn hist-run");
    {
        let mut si = child.stdin.take().unwrap();
        let _ = si.write_all(serde_json::to_string(steps).unwrap().as_bytes());
    }
    let out = child.wait_with_output().expect("wait hist-run");
    let (results, ended) = parse_child_output(&String::from_utf8_lossy(&out.stdout));
    let died_at = if ended && out.status.success() { None } else { Some(results.len()) };
    HistoryOutcome { results, died_at, status: format!("{:?}", out.status) }
}
