//! C05 (history part) — the same input gives the same bytes or the same error
//! text whatever was compiled earlier in the same process, with the real std
//! synchronisation primitives and the real process-wide statics.

use crate::core::*;
use crate::hist::*;
use crate::loader::*;
use serde::{Deserialize, Serialize};
use serde_json::{json, Value as Json};
use std::cell::RefCell;
use std::collections::HashMap;
use vcommon::pool::{draw_item, sibling_of, twin_with_other_format, Item};
use vcommon::Rng;

pub struct C05H;

#[derive(Clone, Serialize, Deserialize)]
pub struct Case {
    pub steps: Vec<Step>,
}

thread_local! {
    static REFS: RefCell<HashMap<u64, Result<Res, (Res, Res)>>> = RefCell::new(HashMap::new());
}

/// The item compiled alone, as the only compilation of a fresh process
/// (twice the first time: the reference itself must be stable).
fn reference(item: &Item, cache: bool, stats: &mut Stats) -> Result<Res, (Res, Res)> {
    let d = item.digest();
    if cache {
        if let Some(r) = REFS.with(|m| m.borrow().get(&d).cloned()) {
            return r;
        }
    }
    let one = |stats: &mut Stats| -> Res {
        stats.inc("reference_processes");
        let h = run_history(&[Step::plain(item.clone())]);
        match (h.died_at, h.results.into_iter().next()) {
            (None, Some(r)) => r.res,
            _ => Res::Panic(format!("process died: {}", h.status)),
        }
    };
    // Processes are the expensive resource here (fork does not scale in this
    // sandbox): the reference is recomputed in a second fresh process for every
    // fourth new item only; an unstable reference would in any case surface as
    // a mismatch of the comparison itself.
    let a = one(stats);
    let r = if d % 4 == 0 || !cache {
        let b = one(stats);
        if a == b || item.nondet { Ok(a) } else { Err((a, b)) }
    } else {
        Ok(a)
    };
    if cache {
        REFS.with(|m| m.borrow_mut().insert(d, r.clone()));
    }
    r
}

fn class(r: &Res) -> &'static str {
    match r {
        Res::Ok(_) => "ok",
        Res::Err { .. } => "err",
        Res::Panic(_) => "panic",
    }
}

fn text_of(r: &Res) -> &str {
    match r {
        Res::Ok(s) | Res::Panic(s) => s,
        Res::Err { text, .. } => text,
    }
}

pub fn judge(steps: &[Step], cache: bool, stats: &mut Stats) -> Vec<(String, String, String)> {
    let mut fails = vec![];
    let mut refs = vec![];
    for s in steps {
        if !s.subject || s.item.nondet || !s.plan.is_empty() {
            refs.push(None);
            continue;
        }
        match reference(&s.item, cache, stats) {
            Ok(r) => refs.push(Some(r)),
            Err((a, b)) => {
                fails.push((
                    "reference_unstable".to_string(),
                    format!("item={}", s.item.name),
                    format!("the same input compiled alone in two fresh processes gave {} and {}", a.short(), b.short()),
                ));
                refs.push(None);
            }
        }
    }
    let h = run_history(steps);
    stats.inc("history_processes");
    stats.add("compilations", h.results.len() as u64);
    if let Some(k) = h.died_at {
        // a process abort is a C01 matter when the input aborts a fresh process too
        let alone_dies = steps.get(k).is_some_and(|s| {
            let r = run_history(&[Step::plain(s.item.clone())]);
            r.died_at.is_some()
        });
        if alone_dies {
            stats.inc("probe:baseline_aborts");
        } else {
            fails.push((
                "process_died".into(),
                format!("steps={} at={k}", steps.len()),
                format!("the process died ({}) in compilation {k} ({}), which completes when compiled alone", h.status, steps.get(k).map_or("?", |s| &s.item.name)),
            ));
        }
    }
    for (k, r) in h.results.iter().enumerate() {
        let s = &steps[k];
        if r.clock_reads > 0 {
            stats.add("probe:clock_reads", r.clock_reads);
        }
        if matches!(r.res, Res::Panic(_)) {
            stats.inc("probe:panicking_predecessor");
        }
        if !s.plan.is_empty() {
            if r.delivered > 0 {
                stats.inc("probe:aborted_by_loader_fault");
            }
            continue;
        }
        if !s.subject {
            stats.inc("compilations_as_predecessor_only");
            continue;
        }
        if s.item.nondet {
            stats.inc("compilations_not_compared_nondet");
            continue;
        }
        let Some(exp) = &refs[k] else { continue };
        stats.inc("compilations_compared");
        stats.fold_str(&format!("{:?}", r.res));
        if s.thread {
            stats.inc("probe:compared_on_other_os_thread");
        }
        if s.chunk.is_benign_noise() {
            stats.inc("probe:compared_under_other_chunking");
        }
        if &r.res != exp {
            fails.push((
                "result_differs_from_fresh_process".into(),
                format!(
                    "position={} ref={} got={} thread={} predecessors={}",
                    if k == 0 { "first" } else { "later" },
                    class(exp),
                    class(&r.res),
                    u8::from(s.thread),
                    k.min(9)
                ),
                format!(
                    "compilation {k} ({}, {:?}) after {k} earlier compilations in the same process gave {} but alone in a fresh process it gives {}\n--- got:\n{}\n--- expected:\n{}",
                    s.item.name,
                    s.item.fmt,
                    r.res.short(),
                    exp.short(),
                    text_of(&r.res).chars().take(600).collect::<String>(),
                    text_of(exp).chars().take(600).collect::<String>()
                ),
            ));
        }
    }
    fails
}

fn draw_steps(rng: &mut Rng, index: u64) -> Vec<Step> {
    // 1-3 subjects, each compiled at several points of a history of
    // predecessors that are never compared (and need no reference process).
    let n = if index % 23 == 22 { 50 } else { 1 + rng.usize(14) };
    let threads = rng.chance(1, 2);
    let subjects: Vec<Item> = {
        let mut v = vec![];
        let want = 1 + rng.usize(3);
        let mut tries = 0;
        while v.len() < want && tries < 20 {
            tries += 1;
            let mut it = draw_item(rng);
            if !it.nondet {
                // items over a flat file set are, a third of the time, compiled through
                // FsLoader::for_cwd() after a chdir (the reference in the same way)
                if it.cwd.is_empty() && !it.files.is_empty() && it.files.keys().all(|k| !k.starts_with('/') && !k.contains("..")) && rng.chance(1, 2) {
                    it.via_cwd = true;
                }
                v.push(it);
            }
        }
        v
    };
    let mut steps: Vec<Step> = vec![];
    for k in 0..n {
        let as_subject = !subjects.is_empty() && (k + 1 == n || rng.chance(1, 3));
        let item = if as_subject {
            rng.pick(&subjects).clone()
        } else if !subjects.is_empty() && rng.chance(1, 5) {
            // a predecessor that is a subject's twin under another output format
            twin_with_other_format(rng.pick(&subjects), rng)
        } else if let Some(sib) = subjects.iter().find_map(|s| sibling_of(s, rng)).filter(|_| rng.chance(1, 2)) {
            // a predecessor that is another input over the same files as a subject
            sib
        } else {
            let mut it = draw_item(rng);
            if it.cwd.is_empty() && !it.files.is_empty() && it.files.keys().all(|k| !k.starts_with('/') && !k.contains("..")) && rng.chance(1, 2) {
                it.via_cwd = true;
            }
            it
        };
        let mut plan = FaultPlan::default();
        if !as_subject && !item.files.is_empty() && rng.chance(1, 4) {
            // abort this predecessor with a loader failure somewhere in its first lookups
            if rng.chance(1, 2) {
                plan.finds.insert(rng.below(6), *rng.pick(&Kind::FIND));
            } else {
                plan.reads.insert(rng.below(3), (*rng.pick(&Kind::READ), rng.usize(40)));
            }
        }
        steps.push(Step {
            item,
            chunk: if rng.chance(1, 2) { Chunking::draw(rng) } else { Chunking::NONE },
            plan,
            thread: threads && rng.chance(1, 3),
            subject: as_subject,
            fastrand_seed: None,
            // every compilation of a history runs under its own clock (the reference under REF_CLOCK)
            clock: Some(crate::hist::draw_clock(rng)),
        });
    }
    steps
}

fn to_violations(steps: &[Step], fails: Vec<(String, String, String)>) -> Vec<Violation> {
    fails
        .into_iter()
        .map(|(oracle, signature, detail)| Violation {
            property: "C05".into(),
            oracle,
            signature,
            detail,
            case: serde_json::to_value(Case { steps: steps.to_vec() }).unwrap(),
            seed: 0,
            index: 0,
            minimised: false,
            shrink_steps: 0,
        })
        .collect()
}

pub fn history_shrinks(steps: &[Step]) -> Vec<Vec<Step>> {
    let mut out = vec![];
    // halves first, then single steps
    if steps.len() > 3 {
        out.push(steps[steps.len() / 2..].to_vec());
        out.push(steps[..steps.len() / 2].to_vec());
    }
    for k in 0..steps.len() {
        if steps.len() > 1 {
            let mut s = steps.to_vec();
            s.remove(k);
            out.push(s);
        }
    }
    for k in 0..steps.len() {
        let st = &steps[k];
        if st.thread || st.chunk != Chunking::NONE || !st.plan.is_empty() {
            let mut s = steps.to_vec();
            s[k].thread = false;
            s[k].chunk = Chunking::NONE;
            s[k].plan = FaultPlan::default();
            out.push(s);
        }
    }
    out
}

pub fn hist_extra(stats: &Stats) -> Json {
    json!({
        "logical_steps": stats.c.get("compilations"),
        "logical_steps_unit": "compilations executed inside history processes",
        "simulated_time_note": "rsass has no clock, timer or deadline; time is reported as logical steps",
        "components": {
            "real": ["rsass (instrumented copy, shims in std mode = the std items themselves), std::sync primitives, process-wide statics MODULES/FUNCTIONS/CALL_ID, fastrand, one fresh OS process per history and per reference, real OS threads started one after another"],
            "stub": ["Loader: SimLoader over the item's mock table, with short reads / EINTR and aborting faults", "std::time -> settable clock, a different one for every compilation of a history (reference: a fixed one)"],
            "not_run": ["rsass-cli", "FsLoader"],
        },
    })
}

impl Prop for C05H {
    fn id(&self) -> &'static str {
        "C05"
    }
    fn level(&self) -> &'static str {
        "exploration"
    }
    fn runs(&self, tier: Tier) -> u64 {
        match tier {
            Tier::Quick => 800,
            Tier::Thorough => 40_000,
        }
    }
    fn run(&self, seed: u64, index: u64, _tier: Tier, stats: &mut Stats) -> Vec<Violation> {
        let mut rng = Rng::new(seed);
        let steps = draw_steps(&mut rng, index);
        stats.inc("runs");
        stats.inc(&format!("stratum:history_len={}", match steps.len() { 1 => "1", 2..=5 => "2-5", 6..=12 => "6-12", _ => "50" }));
        let fails = judge(&steps, true, stats);
        if steps.len() > 1 {
            let mut d = vcommon::Digest::new();
            for s in &steps {
                d.u64(s.item.digest()).u64(u64::from(s.thread)).u64(s.plan.len() as u64);
            }
            stats.nontrivial(d.finish());
        }
        stats.sample(3, || {
            json!({
                "seed": vcommon::hex(seed),
                "index": index,
                "history": steps.iter().map(|s| json!({"item": s.item.name, "format": s.item.fmt, "own_os_thread": s.thread, "chunking": s.chunk, "aborting_fault": s.plan})).collect::<Vec<_>>(),
            })
        });
        to_violations(&steps, fails)
    }
    fn replay(&self, case: &Json, stats: &mut Stats) -> Vec<Violation> {
        let Ok(case) = serde_json::from_value::<Case>(case.clone()) else {
            return vec![];
        };
        let fails = judge(&case.steps, false, stats);
        to_violations(&case.steps, fails)
    }
    fn shrink_candidates(&self, case: &Json) -> Vec<Json> {
        let Ok(case) = serde_json::from_value::<Case>(case.clone()) else {
            return vec![];
        };
        history_shrinks(&case.steps).into_iter().map(|s| serde_json::to_value(Case { steps: s }).unwrap()).collect()
    }
    fn evidence_extra(&self, stats: &Stats) -> Json {
        hist_extra(stats)
    }
    fn max_workers(&self) -> Option<usize> {
        // every run forks a fresh process, and fork is serialised system-wide in this sandbox
        Some(3)
    }
    fn rule(&self) -> String {
        "One run = one history: 1-14 (every 23rd run: 50) compilations executed one after another in ONE fresh OS process with the real std primitives, drawn from probe programs, state-attack programs, module-graph items and the sass-spec corpus; some on freshly spawned OS threads, some aborted by an injected loader failure, some panicking, each under its own short-read/EINTR pattern. 1-3 subject inputs per history are compiled at several points of it (always last) and must equal the result of the same input compiled alone in a fresh process; the other compilations are predecessors only. Non-trivial = history of at least two compilations; distinct = distinct (item, thread, fault) sequences.".into()
    }
    fn assumptions(&self) -> Vec<String> {
        vec![
            "inputs whose text mentions random or unique-id are not compared (they still run as predecessors)".into(),
            "a process abort is only a violation if the same input completes when compiled alone".into(),
        ]
    }
    fn sanity(&self, stats: &Stats, _tier: Tier) -> Vec<String> {
        let mut e = vec![];
        if stats.c.get("runs") >= 300 {
            for p in ["compilations_compared", "probe:compared_on_other_os_thread", "probe:compared_under_other_chunking", "probe:aborted_by_loader_fault"] {
                if stats.c.get(p) == 0 {
                    e.push(format!("{p} stuck at zero"));
                }
            }
        }
        e
    }
}
