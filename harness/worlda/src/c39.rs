//! C39 — loader failures are reported, never absorbed.
//!
//! One run = one workload (a generated load graph or a multi-file sass-spec
//! case) under a complete single-fault enumeration: every `find_file` call of
//! the fault-free history fails with every error kind, every opened file
//! fails at offset 0, at every line boundary, at a random interior byte and
//! instead of EOF; plus seeded multi-fault sequences and benign-only runs.

use crate::c02::graph_job_parts;
use crate::core::*;
#[allow(unused_imports)]
use crate::core::StatsExt;
use crate::gen::{gen_graph, GraphParams};
use crate::loader::*;
use crate::simfs::{CorpusStore, Store};
use crate::spec::*;
use serde::{Deserialize, Serialize};
use serde_json::{json, Value as Json};
use std::collections::BTreeMap;
use std::rc::Rc;
use std::sync::OnceLock;
use vcommon::Rng;

pub struct C39;

#[derive(Clone, Serialize, Deserialize)]
pub struct CorpusCase {
    pub test: String,
    pub cwd: String,
    pub precision: usize,
    pub mock: BTreeMap<String, String>,
    pub input: String,
}

#[derive(Clone, Serialize, Deserialize)]
pub enum Workload {
    Graph(GraphSpec),
    Corpus(CorpusCase),
}

#[derive(Clone, Serialize, Deserialize)]
pub struct Case {
    pub workload: Workload,
    pub plan: FaultPlan,
    pub chunk: Chunking,
    /// generated graphs only: compile through rsass' own FsLoader / CargoLoader code over the
    /// simulated file system, with the faults injected BELOW the loader (open, read)
    #[serde(default)]
    pub via: Via,
}

static CORPUS: OnceLock<Vec<CorpusCase>> = OnceLock::new();

/// Multi-file cases of the extracted sass-spec corpus.
pub fn corpus() -> &'static [CorpusCase] {
    CORPUS.get_or_init(|| {
        let path = format!("{}/corpus/spec_cases.jsonl", vcommon::verif_dir());
        let text = std::fs::read_to_string(&path).unwrap_or_default();
        let mut out = vec![];
        for line in text.lines() {
            let Ok(j) = serde_json::from_str::<Json>(line) else { continue };
            let mock: BTreeMap<String, String> = j["mock"]
                .as_object()
                .map(|o| o.iter().map(|(k, v)| (k.clone(), v.as_str().unwrap_or("").to_string())).collect())
                .unwrap_or_default();
            if mock.is_empty() {
                continue;
            }
            out.push(CorpusCase {
                test: j["test"].as_str().unwrap_or("").to_string(),
                cwd: j["cwd"].as_str().unwrap_or("").to_string(),
                precision: j["precision"].as_u64().unwrap_or(10) as usize,
                mock,
                input: j["input"].as_str().unwrap_or("").to_string(),
            });
        }
        out
    })
}

pub struct Prepared {
    store: Rc<dyn Store>,
    root_name: String,
    root_canon: String,
    root_data: Rc<Vec<u8>>,
    fmt: Fmt,
    /// for the real loaders: the simulated tree and the base directories
    real: Option<(crate::simfs::SimFs, Vec<String>)>,
    via: Via,
}

pub fn prepare(w: &Workload) -> Prepared {
    prepare_via(w, Via::Stub)
}

pub fn prepare_via(w: &Workload, via: Via) -> Prepared {
    match w {
        Workload::Graph(spec) => {
            let (store, root_name, root_canon, root_data) = graph_job_parts(spec);
            let real = (via != Via::Stub).then(|| (spec.build_fs(), spec.bases.clone()));
            Prepared { store, root_name, root_canon, root_data, fmt: spec.fmt, real, via }
        }
        Workload::Corpus(c) => {
            let mock = c.mock.iter().map(|(k, v)| (k.clone(), Rc::new(v.clone().into_bytes()))).collect();
            Prepared {
                store: Rc::new(CorpusStore { mock, cwd: c.cwd.clone() }),
                root_name: "input.scss".into(),
                root_canon: "input.scss".into(),
                root_data: Rc::new(c.input.clone().into_bytes()),
                fmt: Fmt { compressed: false, precision: c.precision },
                real: None,
                via: Via::Stub,
            }
        }
    }
}

const BUDGET: u64 = 200_000;

pub fn run_prepared(p: &Prepared, plan: &FaultPlan, chunk: Chunking) -> Outcome {
    if let Some((fs, bases)) = &p.real {
        return run_job_real(&RealJob {
            fs,
            bases,
            root_rel: &p.root_name,
            fmt: p.fmt,
            plan,
            chunk,
            budget: BUDGET,
            via: p.via,
            root_with_dir: p.root_data.len() % 2 == 1,
        });
    }
    run_job(&Job {
        store: p.store.clone(),
        root_name: &p.root_name,
        root_canon: &p.root_canon,
        root_data: p.root_data.clone(),
        fmt: p.fmt,
        plan,
        chunk,
        budget: BUDGET,
    })
}

fn plan_sig(plan: &FaultPlan, o: &Outcome) -> String {
    let mut kinds: Vec<String> = plan.finds.values().map(|k| format!("F:{k:?}")).collect();
    kinds.extend(plan.reads.values().map(|(k, _)| format!("R:{k:?}")));
    kinds.extend(plan.opens.values().map(|k| format!("O:{k:?}")));
    kinds.sort();
    kinds.dedup();
    // the load statement kind in flight when the first fault hit, from the history
    let first = o.delivered.first().cloned().unwrap_or_default();
    format!(
        "faults={} kinds={} first={}",
        plan.len(),
        kinds.join(","),
        if first.contains("#f") { "find" } else if first.contains("#r") { "read" } else if first.contains("#o") { "open" } else { "none" }
    )
}

/// Judge one (workload, plan) pair against the fault-free baseline.
pub fn judge_plan(
    p: &Prepared,
    base: &Outcome,
    plan: &FaultPlan,
    chunk: Chunking,
    recover: bool,
    stats: &mut Stats,
) -> (Judgement, Outcome) {
    let o = run_prepared(p, plan, chunk);
    stats.compiled(&o);
    let sig = plan_sig(plan, &o);
    if o.budget_hit {
        return (Judgement::fail("liveness", sig, "compilation under faults did not end".into()), o);
    }
    if let Res::Panic(m) = &o.res {
        return (
            Judgement::fail("no_panic", sig, format!("a loader failure made the compilation panic: {m}")),
            o,
        );
    }
    if o.delivered.is_empty() {
        stats.inc("plans_undelivered");
        if o.res != base.res {
            return (
                Judgement::fail(
                    if plan.is_empty() { "benign_changed_result" } else { "undelivered_changed_result" },
                    sig,
                    format!("no hard fault was delivered, yet the result changed: {} vs {}", base.res.short(), o.res.short()),
                ),
                o,
            );
        }
    } else {
        stats.inc("plans_delivered");
        match &o.res {
            Res::Ok(css) => {
                return (
                    Judgement::fail(
                        "fault_absorbed",
                        sig,
                        format!(
                            "loader failure {} was delivered but the compilation returned Ok ({} bytes of css{})",
                            o.delivered[0],
                            css.len(),
                            if Res::Ok(css.clone()) == base.res { ", identical to the fault-free output" } else { ", differing from the fault-free output" }
                        ),
                    ),
                    o,
                );
            }
            Res::Err { text, .. } => {
                if !text.contains(&o.delivered[0]) {
                    return (
                        Judgement::fail(
                            "error_lost",
                            sig,
                            format!(
                                "loader failure {} was delivered but the reported error is a different one: {}",
                                o.delivered[0],
                                o.res.short()
                            ),
                        ),
                        o,
                    );
                }
            }
            Res::Panic(_) => unreachable!(),
        }
        if !recover {
            return (Judgement::Pass, o);
        }
        // recovery: same process, fresh context, working loader
        let r = run_prepared(p, &FaultPlan::default(), Chunking::NONE);
        stats.compiled(&r);
        stats.inc("recoveries_checked");
        // ... and so does an unrelated stylesheet (state left behind need not hit the same input)
        if CANARY_TICK.with(|t| {
            let v = t.get();
            t.set(v + 1);
            v % 4 == 0
        }) {
            let (want, got) = canary();
            stats.inc("canaries_checked");
            if want != got {
                return (
                    Judgement::fail(
                        "no_recovery",
                        format!("{sig} canary=1"),
                        format!("after a failed compilation an unrelated stylesheet with a working loader gives {} instead of {}", got.short(), want.short()),
                    ),
                    r,
                );
            }
        }
        if r.res != base.res {
            return (
                Judgement::fail(
                    "no_recovery",
                    sig,
                    format!(
                        "after a failed compilation the same input with a working loader gives {} instead of {}",
                        r.res.short(),
                        base.res.short()
                    ),
                ),
                r,
            );
        }
    }
    (Judgement::Pass, o)
}

thread_local! {
    static CANARY_TICK: std::cell::Cell<u64> = const { std::cell::Cell::new(0) };
}

/// An unrelated four-file stylesheet using every load kind: (what it gave when this process first
/// compiled it, what it gives now).
fn canary() -> (Res, Res) {
    static FIRST: OnceLock<Res> = OnceLock::new();
    let mut fs = crate::simfs::SimFs::new();
    fs.add_file("k/root.scss", "@use \"sass:meta\";\n@use \"a\" as n;\n@import \"sub/b\";\n@include meta.load-css(\"c\");\nr { v: n.$v; w: $w; }\n");
    fs.add_file("k/_a.scss", "@forward \"sub/d\";\n$v: 1;\na { b: c; }\n");
    fs.add_file("k/sub/b.scss", "$w: 2;\n.toolbar .btn-#{$w} { x: y; }\n");
    fs.add_file("k/c/_index.scss", "c { d: e; }\n");
    fs.add_file("k/sub/d.css", "d { e: f; }\n");
    let data = fs.file("k/root.scss").expect("canary root");
    let store = Rc::new(crate::simfs::FsStore { fs, bases: vec!["k".to_string()] });
    let plan = FaultPlan::default();
    let now = run_job(&Job {
        store,
        root_name: "root.scss",
        root_canon: "k/root.scss",
        root_data: data,
        fmt: Fmt::default(),
        plan: &plan,
        chunk: Chunking::NONE,
        budget: 1000,
    })
    .res;
    (FIRST.get_or_init(|| now.clone()).clone(), now)
}

/// Baseline (twice, must be stable and must not panic).
fn baseline(p: &Prepared, stats: &mut Stats) -> Option<Outcome> {
    let b1 = run_prepared(p, &FaultPlan::default(), Chunking::NONE);
    stats.compiled(&b1);
    if matches!(b1.res, Res::Panic(_)) {
        stats.inc("probe:baseline_panics");
        return None;
    }
    if b1.budget_hit {
        stats.inc("baseline_budget");
        return None;
    }
    let b2 = run_prepared(p, &FaultPlan::default(), Chunking::NONE);
    stats.compiled(&b2);
    if b1.res != b2.res {
        stats.inc("unstable_baseline");
        return None;
    }
    Some(b1)
}

fn line_boundaries(data: &[u8]) -> Vec<usize> {
    data.iter().enumerate().filter(|(_, b)| **b == b'\n').map(|(i, _)| i + 1).collect()
}

/// The complete single-fault enumeration for a baseline history.
fn single_fault_plans(
    base: &Outcome,
    sizes: &BTreeMap<u64, usize>,
    bounds: &BTreeMap<u64, Vec<usize>>,
    rng: &mut Rng,
    stats: &mut Stats,
) -> Vec<FaultPlan> {
    let mut plans = vec![];
    // Every call index is always hit.  For very long histories only two of the
    // error kinds (rotating) are tried per index, to bound the cost of one run.
    let full = base.finds * 6 + base.hits * 8 <= 1500;
    if !full {
        stats.inc("workloads_with_kinds_rotated");
    }
    let mut rot = 0usize;
    for f in 0..base.finds {
        // the long tail of error kinds: two per index, rotating
        for _ in 0..2 {
            let mut p = FaultPlan::default();
            p.finds.insert(f, Kind::TAIL[rot % Kind::TAIL.len()]);
            rot += 1;
            plans.push(p);
        }
        if full {
            for k in Kind::FIND {
                let mut p = FaultPlan::default();
                p.finds.insert(f, k);
                plans.push(p);
            }
        } else {
            for _ in 0..2 {
                let mut p = FaultPlan::default();
                p.finds.insert(f, Kind::FIND[rot % Kind::FIND.len()]);
                rot += 1;
                plans.push(p);
            }
        }
    }
    for h in 0..base.hits {
        let len = sizes.get(&h).copied().unwrap_or(0);
        for _ in 0..2 {
            let mut p = FaultPlan::default();
            let off = if len > 0 && rot % 3 == 0 { rng.usize(len + 1) } else { 0 };
            p.reads.insert(h, (Kind::TAIL[rot % Kind::TAIL.len()], off));
            rot += 1;
            plans.push(p);
        }
        if full {
            for k in Kind::READ {
                let mut p = FaultPlan::default();
                p.reads.insert(h, (k, 0));
                plans.push(p);
            }
        } else {
            let mut p = FaultPlan::default();
            p.reads.insert(h, (Kind::READ[rot % Kind::READ.len()], 0));
            rot += 1;
            plans.push(p);
        }
        let mut offs: Vec<usize> = if full { bounds.get(&h).cloned().unwrap_or_default() } else { vec![] };
        if len > 0 {
            offs.push(len);
            offs.push(rng.usize(len));
        }
        offs.sort_unstable();
        offs.dedup();
        for off in offs {
            if off == 0 {
                continue;
            }
            let mut p = FaultPlan::default();
            p.reads.insert(h, (Kind::READ[rot % Kind::READ.len()], off));
            rot += 1;
            plans.push(p);
        }
    }
    plans
}

fn file_data(w: &Workload, canon: &str) -> Option<Vec<u8>> {
    match w {
        Workload::Graph(spec) => spec.build_fs().file(canon).map(|d| d.to_vec()),
        Workload::Corpus(c) => {
            if canon == "input.scss" {
                Some(c.input.clone().into_bytes())
            } else {
                c.mock.get(canon).map(|s| s.clone().into_bytes())
            }
        }
    }
}

fn viol(case: &Case, oracle: String, signature: String, detail: String, o: &Outcome) -> Violation {
    let mut cj = serde_json::to_value(case).unwrap();
    if let Workload::Graph(spec) = &case.workload {
        let fs = spec.build_fs();
        cj["files_rendered"] = Json::Object(
            fs.files().map(|(p, d)| (p.clone(), json!(String::from_utf8_lossy(d)))).collect(),
        );
    }
    cj["history"] = serde_json::to_value(&o.history).unwrap();
    cj["history_digest"] = json!(vcommon::hex(o.history_digest()));
    cj["result"] = json!(o.res.short());
    Violation {
        property: "C39".into(),
        oracle,
        signature,
        detail,
        case: cj,
        seed: 0,
        index: 0,
        minimised: false,
        shrink_steps: 0,
    }
}

/// Complete single-fault enumeration BELOW a real loader: every `File::open` call of the fault-free
/// history fails with every kind (although `is_file()` just said yes), every opened file fails while
/// being read (offset 0, line boundaries, interior, instead of EOF); plus multi-fault and benign runs.
fn enumerate_below_loader(workload: &Workload, via: Via, rng: &mut Rng, stats: &mut Stats, out: &mut Vec<Violation>) {
    let p = prepare_via(workload, via);
    let Some(base) = baseline(&p, stats) else {
        stats.inc("real_loader_workloads_skipped");
        return;
    };
    stats.inc(if via == Via::Fs { "probe:workloads_through_fsloader_over_simfs" } else { "probe:workloads_through_cargoloader_over_simfs" });
    let mut sizes = BTreeMap::new();
    let mut bounds = BTreeMap::new();
    for e in &base.history {
        if let Event::Read { hit, canon, .. } = e {
            if let Some(d) = file_data(workload, canon) {
                sizes.insert(*hit, d.len());
                let mut b = line_boundaries(&d);
                if b.len() > 6 {
                    b = (0..6).map(|_| b[rng.usize(b.len())]).collect();
                }
                bounds.insert(*hit, b);
            }
        }
    }
    let mut plans: Vec<(FaultPlan, Chunking)> = vec![];
    let full = base.opens * 5 + base.hits * 8 <= 1000;
    let mut rot = 0usize;
    for o in 0..base.opens {
        for _ in 0..2 {
            let mut pl = FaultPlan::default();
            pl.opens.insert(o, Kind::TAIL[rot % Kind::TAIL.len()]);
            rot += 1;
            plans.push((pl, Chunking::NONE));
        }
        if full {
            for k in Kind::OPEN {
                let mut pl = FaultPlan::default();
                pl.opens.insert(o, k);
                plans.push((pl, Chunking::NONE));
            }
        } else {
            let mut pl = FaultPlan::default();
            pl.opens.insert(o, Kind::OPEN[rot % Kind::OPEN.len()]);
            rot += 1;
            plans.push((pl, Chunking::NONE));
        }
    }
    // read faults: reuse the enumeration with no lookup faults
    let reads_only = Outcome { finds: 0, ..clone_counts(&base) };
    for pl in single_fault_plans(&reads_only, &sizes, &bounds, rng, stats) {
        plans.push((pl, if rng.chance(1, 4) { Chunking::draw_for_generated(rng) } else { Chunking::NONE }));
    }
    for _ in 0..4 {
        let mut pl = FaultPlan::default();
        for _ in 0..2 + rng.usize(2) {
            if base.opens > 0 && rng.chance(1, 2) {
                pl.opens.insert(rng.below(base.opens), *rng.pick(&Kind::OPEN));
            } else if base.hits > 0 {
                let h = rng.below(base.hits);
                let len = sizes.get(&h).copied().unwrap_or(0);
                pl.reads.insert(h, (*rng.pick(&Kind::READ), rng.usize(len + 1)));
            }
        }
        plans.push((pl, Chunking::draw_for_generated(rng)));
    }
    let c = Chunking::draw_for_generated(rng);
    if c.is_benign_noise() {
        plans.push((FaultPlan::default(), c));
    }
    stats.add("below_loader_plans", plans.len() as u64);
    let mut classes: Vec<(String, String)> = vec![];
    for (plan, chunk) in plans {
        let (j, o) = judge_plan(&p, &base, &plan, chunk, true, stats);
        if !o.delivered.is_empty() {
            stats.nontrivial(o.history_digest());
        }
        if let Judgement::Fail { oracle, signature, detail } = j {
            let signature = format!("{signature} via={via:?}");
            if classes.contains(&(oracle.clone(), signature.clone())) {
                stats.inc("violations_same_class_suppressed");
                continue;
            }
            classes.push((oracle.clone(), signature.clone()));
            let case = Case { workload: workload.clone(), plan, chunk, via };
            out.push(viol(&case, oracle, signature, detail, &o));
        }
    }
}

/// Counters of an outcome without its history (for plan enumeration).
fn clone_counts(o: &Outcome) -> Outcome {
    Outcome {
        res: Res::Ok(String::new()),
        history: vec![],
        delivered: vec![],
        budget_hit: false,
        fired: vcommon::Counters::default(),
        finds: o.finds,
        hits: o.hits,
        opens: o.opens,
    }
}

fn workload_for(index: u64, tier: Tier, rng: &mut Rng) -> (Workload, &'static str) {
    let corp = corpus();
    let use_corpus = !corp.is_empty() && index % 5 >= 3; // 2 of 5 runs
    if use_corpus {
        // walk the corpus in a fixed stride so that a thorough run covers all of it
        let k = (index / 5) * 2 + (index % 5 - 3);
        let k = match tier {
            Tier::Thorough => k as usize % corp.len(),
            // quick: a seed-dependent sample
            Tier::Quick => rng.usize(corp.len()),
        };
        (Workload::Corpus(corp[k].clone()), "corpus")
    } else {
        let mut p = GraphParams::stratified(rng.below(GraphParams::STRATA), rng);
        p.wrappers = true;
        if p.nfiles > 4 {
            p.nfiles = 4;
        }
        (Workload::Graph(gen_graph(&p, rng)), "generated")
    }
}

impl Prop for C39 {
    fn id(&self) -> &'static str {
        "C39"
    }
    fn level(&self) -> &'static str {
        "fault_enumeration"
    }
    fn runs(&self, tier: Tier) -> u64 {
        match tier {
            Tier::Quick => 3_000,
            Tier::Thorough => 150_000,
        }
    }
    fn run(&self, seed: u64, index: u64, tier: Tier, stats: &mut Stats) -> Vec<Violation> {
        let mut rng = Rng::new(seed);
        let (workload, wkind) = workload_for(index, tier, &mut rng);
        stats.inc("runs");
        stats.inc(&format!("stratum:workload_{wkind}"));
        let p = prepare(&workload);
        let Some(base) = baseline(&p, stats) else {
            stats.inc("workloads_skipped");
            return vec![];
        };
        stats.inc("workloads_enumerated");
        if base.res.is_ok() {
            stats.inc("probe:baseline_ok");
        } else {
            stats.inc("probe:baseline_err");
        }
        // sizes and line boundaries per opened file
        let mut sizes = BTreeMap::new();
        let mut bounds = BTreeMap::new();
        for e in &base.history {
            if let Event::Read { hit, canon, .. } = e {
                if let Some(d) = file_data(&workload, canon) {
                    sizes.insert(*hit, d.len());
                    let mut b = line_boundaries(&d);
                    if b.len() > 12 {
                        // keep the enumeration affordable for long files: first, last and a sample
                        let keep: Vec<usize> = (0..10).map(|_| b[rng.usize(b.len())]).collect();
                        let (f, l) = (b[0], b[b.len() - 1]);
                        b = keep;
                        b.push(f);
                        b.push(l);
                    }
                    bounds.insert(*hit, b);
                }
            }
        }
        let mut plans: Vec<(FaultPlan, Chunking)> = single_fault_plans(&base, &sizes, &bounds, &mut rng, stats)
            .into_iter()
            .map(|p| (p, Chunking::NONE))
            .collect();
        stats.add("single_fault_plans", plans.len() as u64);
        // a quarter of them again under benign chunking
        let n = plans.len();
        for i in 0..n {
            if rng.chance(1, 4) {
                let c = if matches!(workload, Workload::Graph(_)) { Chunking::draw_for_generated(&mut rng) } else { Chunking::draw(&mut rng) };
                if c.is_benign_noise() {
                    plans.push((plans[i].0.clone(), c));
                }
            }
        }
        // seeded multi-fault sequences among benign noise
        let multi = 8 + rng.usize(8);
        for _ in 0..multi {
            let mut p = FaultPlan::default();
            let k = 2 + rng.usize(3);
            for _ in 0..k {
                if base.finds > 0 && rng.chance(2, 3) {
                    p.finds.insert(rng.below(base.finds), if rng.chance(1, 2) { *rng.pick(&Kind::FIND) } else { *rng.pick(&Kind::TAIL) });
                } else if base.hits > 0 {
                    let h = rng.below(base.hits);
                    let len = sizes.get(&h).copied().unwrap_or(0);
                    p.reads.insert(h, (if rng.chance(1, 2) { *rng.pick(&Kind::READ) } else { *rng.pick(&Kind::TAIL) }, rng.usize(len + 1)));
                }
            }
            plans.push((p, if matches!(workload, Workload::Graph(_)) { Chunking::draw_for_generated(&mut rng) } else { Chunking::draw(&mut rng) }));
            stats.inc("multi_fault_plans");
        }
        // benign only
        for _ in 0..3 {
            let c = if matches!(workload, Workload::Graph(_)) { Chunking::draw_for_generated(&mut rng) } else { Chunking::draw(&mut rng) };
            if c.is_benign_noise() {
                plans.push((FaultPlan::default(), c));
                stats.inc("benign_only_plans");
            }
        }
        let mut out = vec![];
        let mut classes: Vec<(String, String)> = vec![];
        // which runs are kept as evidence samples is decided by a generator of its own: how many samples
        // a batch already holds must never shift the draws that shape the workload (the enumeration
        // below the loader draws after this loop)
        let mut sample_rng = Rng::new(seed ^ 0x5a5a_5a5a_5a5a_5a5a);
        // the recovery compile costs a full compilation: for expensive workloads do it for every 4th plan
        let heavy = base.finds > 60;
        for (n, (plan, chunk)) in plans.into_iter().enumerate() {
            let (j, o) = judge_plan(&p, &base, &plan, chunk, !heavy || n % 4 == 0, stats);
            if !o.delivered.is_empty() {
                stats.nontrivial(o.history_digest());
            }
            if o.delivered.len() > 1 {
                stats.inc("probe:several_faults_delivered");
            }
            if let Judgement::Fail { oracle, signature, detail } = j {
                // one violation per class and workload is enough
                if classes.contains(&(oracle.clone(), signature.clone())) {
                    stats.inc("violations_same_class_suppressed");
                    continue;
                }
                classes.push((oracle.clone(), signature.clone()));
                let case = Case { workload: workload.clone(), plan, chunk, via: Via::Stub };
                out.push(viol(&case, oracle, signature, detail, &o));
            } else if stats.samples.len() < 4 && !o.delivered.is_empty() && sample_rng.chance(1, 50) {
                stats.samples.push(json!({
                    "seed": vcommon::hex(seed),
                    "index": index,
                    "workload": match &workload { Workload::Graph(s) => json!({"generated_files": s.files.iter().enumerate().map(|(i, f)| json!({"path": f.path, "text": s.render_file(i)})).collect::<Vec<_>>()}), Workload::Corpus(c) => json!({"spec_case": c.test}) },
                    "fault_plan": plan,
                    "chunking": chunk,
                    "history": o.history,
                    "result": o.res.short(),
                    "baseline": base.res.short(),
                }));
            }
        }
        // the same workload through rsass' own loaders over the simulated file system, faults below the loader
        if matches!(workload, Workload::Graph(_)) {
            for via in [Via::Fs, Via::Cargo] {
                if via == Via::Cargo && index % 3 != 0 {
                    continue;
                }
                enumerate_below_loader(&workload, via, &mut rng, stats, &mut out);
            }
        }
        out
    }
    fn replay(&self, case: &Json, stats: &mut Stats) -> Vec<Violation> {
        let Ok(case) = serde_json::from_value::<Case>(case.clone()) else {
            return vec![];
        };
        let p = prepare_via(&case.workload, case.via);
        let Some(base) = baseline(&p, stats) else {
            return vec![];
        };
        let (j, o) = judge_plan(&p, &base, &case.plan, case.chunk, true, stats);
        match j {
            Judgement::Fail { oracle, signature, detail } => vec![viol(&case, oracle, signature, detail, &o)],
            _ => vec![],
        }
    }
    fn shrink_candidates(&self, case: &Json) -> Vec<Json> {
        let Ok(case) = serde_json::from_value::<Case>(case.clone()) else {
            return vec![];
        };
        let mut out = vec![];
        let push = |c: Case, out: &mut Vec<Json>| out.push(serde_json::to_value(c).unwrap());
        if case.plan.len() > 1 {
            for k in case.plan.finds.keys() {
                let mut c = case.clone();
                c.plan.finds.remove(k);
                push(c, &mut out);
            }
            for k in case.plan.reads.keys() {
                let mut c = case.clone();
                c.plan.reads.remove(k);
                push(c, &mut out);
            }
            for k in case.plan.opens.keys() {
                let mut c = case.clone();
                c.plan.opens.remove(k);
                push(c, &mut out);
            }
        }
        if case.chunk != Chunking::NONE {
            let mut c = case.clone();
            c.chunk = Chunking::NONE;
            push(c, &mut out);
        }
        match &case.workload {
            Workload::Graph(g) => {
                for g2 in graph_shrinks(g) {
                    let mut c = case.clone();
                    c.workload = Workload::Graph(g2);
                    push(c, &mut out);
                }
            }
            Workload::Corpus(cc) => {
                for k in cc.mock.keys() {
                    let mut c2 = cc.clone();
                    c2.mock.remove(k);
                    let mut c = case.clone();
                    c.workload = Workload::Corpus(c2);
                    push(c, &mut out);
                }
            }
        }
        // move a single fault to an earlier index (same kind): histories of shrunk graphs are shorter
        if case.plan.len() == 1 {
            if let Some((&f, &k)) = case.plan.finds.iter().next() {
                for nf in [f / 2, f.saturating_sub(1)] {
                    if nf != f {
                        let mut c = case.clone();
                        c.plan.finds.clear();
                        c.plan.finds.insert(nf, k);
                        push(c, &mut out);
                    }
                }
            }
        }
        out
    }
    fn evidence_extra(&self, stats: &Stats) -> Json {
        crate::core::world_a_extra(stats)
    }
    fn rule(&self) -> String {
        "One run = one workload (3 of 5: a generated load graph of 1-4 files using @use/@forward/@import/meta.load-css in all wrapper positions; 2 of 5: a multi-file sass-spec case from the extracted corpus) compiled fault-free (baseline, twice) and then once per fault plan: EVERY find_file call index of the baseline history x 6 error kinds plus two of 14 further io::ErrorKinds in rotation; EVERY opened file (root included) x 5 error kinds at offset 0 plus two of the 14, plus an error at every line boundary (sampled to 12 for long files), at one random interior byte and instead of EOF; a quarter of these again under short reads/EINTR; 8-15 seeded multi-fault sequences; up to 3 benign-only runs. evaluations = compilations; non-trivial = a hard fault was delivered; distinct = distinct digests of (loader event history incl. fault, result).".into()
    }
    fn assumptions(&self) -> Vec<String> {
        vec![
            "faults are injected (a) at the public Loader trait and the Read stream it returns (SimLoader stub) and (b) below rsass' own FsLoader/CargoLoader, which run as real code over the simulated file system through the instrumented copy (tools/instrument.py): open() failing after is_file() said yes, read errors, short reads, EINTR; a failing stat is indistinguishable from 'no such file' for Path::is_file and is not a fault kind".into(),
            "single-fault enumeration is complete per explored workload, not over all workloads".into(),
            "the reported error must carry the text of the first delivered fault (every propagation path in the unchanged tree preserves it)".into(),
            "workloads whose fault-free baseline panics or is unstable (random()/unique-id()) are skipped and counted".into(),
        ]
    }
    fn sanity(&self, stats: &Stats, tier: Tier) -> Vec<String> {
        let mut errs = vec![];
        if stats.c.get("workloads_enumerated") * 2 < stats.c.get("runs") {
            errs.push("fewer than half of the workloads could be enumerated".into());
        }
        let mut need = vec![
            "plans_delivered",
            "recoveries_checked",
            "fired:Eintr",
            "fired:ShortRead",
            "probe:workloads_through_fsloader_over_simfs",
            "probe:workloads_through_cargoloader_over_simfs",
        ];
        for k in Kind::OPEN {
            let s: &'static str = Box::leak(format!("fired:OpenErr:{k:?}").into_boxed_str());
            need.push(s);
        }
        for k in Kind::TAIL {
            for site in ["FindErr", "ReadErr", "OpenErr"] {
                let s: &'static str = Box::leak(format!("fired:{site}:{k:?}").into_boxed_str());
                need.push(s);
            }
        }
        for k in Kind::FIND {
            let s: &'static str = Box::leak(format!("fired:FindErr:{k:?}").into_boxed_str());
            need.push(s);
        }
        for k in Kind::READ {
            let s: &'static str = Box::leak(format!("fired:ReadErr:{k:?}").into_boxed_str());
            need.push(s);
        }
        if tier == Tier::Thorough || stats.c.get("runs") >= 100 {
            for p in need {
                if stats.c.get(p) == 0 {
                    errs.push(format!("{p} stuck at zero"));
                }
            }
        }
        errs
    }
}
