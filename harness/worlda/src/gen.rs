//! Generator of load graphs (shared by C02, C03, C39, C05 histories).

use crate::loader::Fmt;
use crate::resolve::{all_matches, relative_matches, winners_under_all_readings};
use crate::simfs::SimFs;
use crate::spec::*;
use vcommon::Rng;

#[derive(Clone, Debug)]
pub struct GraphParams {
    pub nfiles: usize,
    pub kinds: Vec<LoadKind>,
    pub noise: Noise,
    pub cyclic: bool,
    pub nlp: usize,
    pub wrappers: bool,
    /// average extra edges per file (in quarters)
    pub density_q: u64,
    /// C03 style content (module variables, probes, assignments)
    pub c03: bool,
    /// allow a load-path url from an importer in a sub-directory
    pub subdir_loadpath: bool,
    /// file j is loaded by file j-1: one long chain of nested loads instead of a bushy tree
    pub chain: bool,
}

pub const ALL_KINDS: [LoadKind; 4] =
    [LoadKind::Use, LoadKind::Forward, LoadKind::Import, LoadKind::LoadCss];

impl GraphParams {
    /// Stratified draw: `stratum` cycles through the product of
    /// (file count) x (kind subset) x (noise) x (cyclic).
    pub fn stratified(stratum: u64, rng: &mut Rng) -> GraphParams {
        let mut s = stratum;
        let nf_class = s % 5;
        s /= 5;
        let kind_mask = 1 + (s % 15) as u8; // non-empty subset of 4 kinds
        s /= 15;
        let noise = if s % 2 == 0 { Noise::Alias } else { Noise::Canonical };
        s /= 2;
        let cyclic = s % 2 == 0;
        let nfiles = match nf_class {
            0 => 1,
            1 => 2,
            2 => 3,
            3 => 4,
            _ => 5 + rng.usize(4),
        };
        let kinds = ALL_KINDS
            .iter()
            .enumerate()
            .filter(|(i, _)| kind_mask & (1 << i) != 0)
            .map(|(_, k)| *k)
            .collect();
        GraphParams {
            nfiles,
            kinds,
            noise,
            cyclic,
            nlp: rng.usize(3),
            wrappers: rng.chance(1, 2),
            density_q: rng.range(0, 6),
            c03: false,
            subdir_loadpath: rng.chance(1, 8),
            chain: false,
        }
    }
    pub const STRATA: u64 = 5 * 15 * 2 * 2;

    pub fn stratum_name(&self) -> String {
        let nf = if self.nfiles > 4 { "5+".to_string() } else { self.nfiles.to_string() };
        let ks: String = self.kinds.iter().map(|k| k.letter()).collect();
        format!(
            "n{nf}/{ks}/{}/{}",
            if self.noise == Noise::Alias { "alias" } else { "canon" },
            if self.cyclic { "cyc" } else { "acyc" }
        )
    }
}

const DIRS: [&str; 5] = ["", "d", "d/e", "m", "r"];

fn base_of<'a>(bases: &'a [String], path: &str) -> (usize, &'a str) {
    for (i, b) in bases.iter().enumerate() {
        if path.starts_with(&format!("{b}/")) {
            return (i, b);
        }
    }
    (0, &bases[0])
}

/// Spell a url for importer -> target and make sure that every reading of
/// the resolution rules reaches exactly the target.
fn spell(
    fs: &SimFs,
    bases: &[String],
    importer: &str,
    target: &str,
    kind: LoadKind,
    p: &GraphParams,
    rng: &mut Rng,
) -> Option<String> {
    let (ib, ibase) = base_of(bases, importer);
    let (tb, tbase) = base_of(bases, target);
    let iname = rel_to_base(importer, ibase);
    let depth0 = 1; // every base is a depth-1 directory of the SimFs
    for attempt in 0..6 {
        let noise = if attempt >= 4 { Noise::Canonical } else { p.noise };
        let loadpath_ok = !iname.contains('/') || p.subdir_loadpath;
        let via_loadpath = ib != tb || (loadpath_ok && tb != 0 && rng.chance(1, 3));
        let url = if via_loadpath {
            if !loadpath_ok {
                return None;
            }
            // the url as a load path sees it: the target relative to its base,
            // spelled from a virtual importer at the top of that base
            let virt = format!("{tbase}/__top.scss");
            spell_relative(fs, &virt, target, depth0, noise, rng)
        } else {
            spell_relative(fs, importer, target, depth0, noise, rng)
        };
        let m = all_matches(fs, bases, iname, &url, kind == LoadKind::Import);
        if m.len() == 1 && m.contains(target) {
            return Some(url);
        }
        // every admissible reading of the rule reaches the target (e.g. `f1` when both f1.scss and
        // f1/index.scss exist: the first candidate wins under all of them)
        {
            let w = winners_under_all_readings(fs, bases, ib, iname, &url, kind == LoadKind::Import);
            if w.len() == 1 && w.contains(&Some(target.to_string())) {
                return Some(url);
            }
        }
        // an importer in a sub-directory whose url, taken relative to it, names exactly the target:
        // the first lookup round decides, although the same url means another file elsewhere
        if iname.contains('/') && !via_loadpath {
            let r = relative_matches(fs, bases, iname, &url, kind == LoadKind::Import);
            if r.len() == 1 && r.contains(target) {
                return Some(url);
            }
        }
    }
    None
}

/// Number of graphs over `n` files in which every ordered pair (i, j), self-loops included, carries
/// no edge or one edge of one of the four load kinds.
pub const fn exhaustive_count(n: u32) -> u64 {
    5u64.pow(n * n)
}

/// Graph number `code` (base-5 digits = the n x n edge matrix, row-major) over a fixed layout:
/// `w/root.scss`, `w/f1.scss`, `w/d/_f2.scss`; loads in target order, unwrapped; urls canonical or
/// (every other layout variant) with alias noise.  Together with the counts above this is the
/// "all directed graphs over up to 3 files" of the property's quantifier, one load per ordered pair.
pub fn exhaustive_graph(n: usize, code: u64, variant: u64, rng: &mut Rng) -> GraphSpec {
    let bases = vec!["w".to_string()];
    let paths: Vec<String> = ["w/root.scss", "w/f1.scss", "w/d/_f2.scss"].iter().take(n).map(|s| (*s).to_string()).collect();
    let mut fs = SimFs::new();
    fs.add_dir("w");
    fs.add_dir("w/d");
    fs.add_dir("w/x");
    for p in &paths {
        fs.add_file(p, "");
    }
    let params = GraphParams {
        nfiles: n,
        kinds: ALL_KINDS.to_vec(),
        noise: if variant % 2 == 1 { Noise::Alias } else { Noise::Canonical },
        cyclic: true,
        nlp: 0,
        wrappers: false,
        density_q: 0,
        c03: false,
        subdir_loadpath: false,
        chain: false,
    };
    let mut c = code;
    let mut files = vec![];
    for i in 0..n {
        let mut stmts = vec![];
        for j in 0..n {
            let d = c % 5;
            c /= 5;
            if d == 0 {
                continue;
            }
            let kind = ALL_KINDS[(d - 1) as usize];
            // an unambiguous spelling always exists in this layout (every name is unique)
            let Some(url) = spell(&fs, &bases, &paths[i], &paths[j], kind, &params, rng) else { continue };
            stmts.push(Stmt::Load { kind, url, target: j, wrap: Wrap::None, ns: format!("n{j}"), with_cfg: false, filter: 0 });
        }
        // the marker before or after the loads
        let pos = if (variant / 2) % 2 == 0 { stmts.len() } else { 0 };
        stmts.insert(pos, Stmt::Marker);
        files.push(FileSpec { path: paths[i].clone(), stmts });
    }
    GraphSpec { files, extra_dirs: vec!["w/x".into()], bases, fmt: Fmt::draw(rng), merge_imports: false, raw_text: Default::default() }
}

/// C03's exhaustive section: every acyclic use/forward graph over `n` <= 3 files (files ordered, edges
/// i -> j only for i < j) in which a pair carries nothing, one `@use`, one `@forward`, two `@use`s under
/// two spellings, or a `@use` and a `@forward`: 5^(n(n-1)/2) graphs.
pub const fn exhaustive_c03_count(n: u32) -> u64 {
    5u64.pow(n * (n - 1) / 2)
}

pub fn exhaustive_c03_graph(n: usize, code: u64, variant: u64, rng: &mut Rng) -> GraphSpec {
    let bases = vec!["w".to_string()];
    let paths: Vec<String> = ["w/root.scss", "w/f1.scss", "w/d/_f2.scss"].iter().take(n).map(|s| (*s).to_string()).collect();
    let mut fs = SimFs::new();
    fs.add_dir("w");
    fs.add_dir("w/d");
    fs.add_dir("w/x");
    for p in &paths {
        fs.add_file(p, "");
    }
    let mk = |noise: Noise| GraphParams {
        nfiles: n,
        kinds: vec![LoadKind::Use, LoadKind::Forward],
        noise,
        cyclic: false,
        nlp: 0,
        wrappers: false,
        density_q: 0,
        c03: true,
        subdir_loadpath: false,
        chain: false,
    };
    let first = mk(if variant % 2 == 1 { Noise::Alias } else { Noise::Canonical });
    let second = mk(Noise::Alias);
    let mut c = code;
    let mut files: Vec<FileSpec> = paths.iter().map(|p| FileSpec { path: p.clone(), stmts: vec![] }).collect();
    for i in 0..n {
        for j in i + 1..n {
            let d = c % 5;
            c /= 5;
            let kinds: &[LoadKind] = match d {
                0 => &[],
                1 => &[LoadKind::Use],
                2 => &[LoadKind::Forward],
                3 => &[LoadKind::Use, LoadKind::Use],
                _ => &[LoadKind::Use, LoadKind::Forward],
            };
            for (k, kind) in kinds.iter().enumerate() {
                let p = if k == 0 { &first } else { &second };
                if let Some(url) = spell(&fs, &bases, &paths[i], &paths[j], *kind, p, rng) {
                    files[i].stmts.push(Stmt::Load {
                        kind: *kind,
                        url,
                        target: j,
                        wrap: Wrap::None,
                        ns: format!("n{j}{}", if k == 0 { "a" } else { "b" }),
                        with_cfg: false,
                        filter: 0,
                    });
                }
            }
        }
    }
    for f in files.iter_mut() {
        f.stmts.push(Stmt::ModuleVars);
    }
    GraphSpec { files, extra_dirs: vec!["w/x".into()], bases, fmt: Fmt::draw(rng), merge_imports: false, raw_text: Default::default() }
}

/// Byte-identical twins: `w/t.scss` and `w/sub/t.scss` both consist of one load of the url `n` - which
/// means `w/n.scss` for the one and `w/sub/n.scss` for the other.  The root loads both twins.  Only
/// `w/sub/n.scss` leads back to the root, so a cycle is reachable exactly through the second twin
/// (or, acyclic variant, through none).  What a file's loads mean depends on where the FILE is, not
/// on what its bytes are.
pub fn twins_graph(rng: &mut Rng) -> GraphSpec {
    let kind = *rng.pick(&ALL_KINDS);
    let ld = |kind: LoadKind, url: &str, target: usize, ns: &str| Stmt::Load { kind, url: url.to_string(), target, wrap: Wrap::None, ns: ns.to_string(), with_cfg: false, filter: 0 };
    let cyclic = rng.chance(2, 3);
    let swap = rng.chance(1, 2);
    // files: 0 root, 1 w/t, 2 w/sub/t, 3 w/n, 4 w/sub/n
    let (first, second) = if swap { (("sub/t", 2), ("t", 1)) } else { (("t", 1), ("sub/t", 2)) };
    let root_kind = *rng.pick(&[LoadKind::Import, LoadKind::Import, LoadKind::Use, LoadKind::LoadCss]);
    let root = vec![ld(root_kind, first.0, first.1, "na"), ld(root_kind, second.0, second.1, "nb"), Stmt::Marker];
    let twin_text = match kind {
        LoadKind::Use => "@use \"n\" as q;\ntw { f: t; }\n".to_string(),
        LoadKind::Forward => "@forward \"n\";\ntw { f: t; }\n".to_string(),
        LoadKind::Import => "@import \"n\";\ntw { f: t; }\n".to_string(),
        LoadKind::LoadCss => "@use \"sass:meta\";\n@include meta.load-css(\"n\");\ntw { f: t; }\n".to_string(),
    };
    let back_kind = *rng.pick(&[LoadKind::Import, LoadKind::Use, LoadKind::Forward, LoadKind::LoadCss]);
    let mut subn = vec![Stmt::Marker];
    if cyclic {
        subn.push(ld(back_kind, "../root", 0, "nr"));
    }
    let files = vec![
        FileSpec { path: "w/root.scss".into(), stmts: root },
        FileSpec { path: "w/t.scss".into(), stmts: vec![ld(kind, "n", 3, "q")] },
        FileSpec { path: "w/sub/t.scss".into(), stmts: vec![ld(kind, "n", 4, "q")] },
        FileSpec { path: "w/n.scss".into(), stmts: vec![Stmt::Marker] },
        FileSpec { path: "w/sub/n.scss".into(), stmts: subn },
    ];
    let mut raw_text = std::collections::BTreeMap::new();
    raw_text.insert(1, twin_text.clone());
    raw_text.insert(2, twin_text);
    GraphSpec { files, extra_dirs: vec![], bases: vec!["w".into()], fmt: Fmt::draw(rng), merge_imports: false, raw_text }
}

/// A path that differs from `path` only in a way a careless key might ignore.
fn lookalike(path: &str, how: u64, may_be_css: bool) -> Option<String> {
    let (dir, name) = path.rsplit_once('/')?;
    if name == "index.scss" || name == "_index.scss" {
        // x/index.scss <-> x.scss next to the directory x
        let (pdir, x) = dir.rsplit_once('/')?;
        return Some(format!("{pdir}/{x}.scss"));
    }
    let stem = name.trim_end_matches(".scss").trim_end_matches(".css");
    let ext = if name.ends_with(".css") { ".css" } else { ".scss" };
    let bare = stem.trim_start_matches('_');
    Some(match how {
        0 => {
            // letter case
            let flipped: String = bare.chars().map(|c| if c == 'f' { 'F' } else { c }).collect();
            format!("{dir}/{}{flipped}{ext}", if stem.starts_with('_') { "_" } else { "" })
        }
        1 => {
            // partial underscore
            if stem.starts_with('_') {
                format!("{dir}/{bare}{ext}")
            } else {
                format!("{dir}/_{bare}{ext}")
            }
        }
        2 => {
            // extension
            if ext == ".css" {
                format!("{dir}/{stem}.scss")
            } else if may_be_css {
                format!("{dir}/{stem}.css")
            } else {
                return None;
            }
        }
        3 => format!("{dir}/{bare}/index.scss"),
        _ => {
            // the same name in another directory of the same base: one url string, two meanings
            let (base, sub) = dir.split_once('/').map_or((dir, ""), |(b, s)| (b, s));
            let other = ["", "d", "d/e", "m", "r"].iter().find(|d| **d != sub && (how % 2 == 0 || !d.is_empty()))?;
            let name2 = if how % 2 == 0 { format!("_{bare}{ext}") } else { name.to_string() };
            if other.is_empty() {
                format!("{base}/{name2}")
            } else {
                format!("{base}/{other}/{name2}")
            }
        }
    })
}

pub fn gen_graph(p: &GraphParams, rng: &mut Rng) -> GraphSpec {
    let mut bases = vec!["w".to_string()];
    for i in 0..p.nlp {
        bases.push(format!("lp{}", i + 1));
    }
    // 1. edges (indices only)
    let n = p.nfiles;
    let mut edges: Vec<Vec<(usize, LoadKind)>> = vec![vec![]; n];
    for j in 1..n {
        let parent = if p.chain { j - 1 } else { rng.usize(j) };
        edges[parent].push((j, *rng.pick(&p.kinds)));
    }
    for i in 0..n {
        let extra = {
            let q = p.density_q;
            let mut e = q / 4;
            if rng.below(4) < q % 4 {
                e += 1;
            }
            e
        };
        for _ in 0..extra {
            let j = if p.cyclic {
                rng.usize(n)
            } else if i + 1 < n {
                i + 1 + rng.usize(n - i - 1)
            } else {
                continue;
            };
            edges[i].push((j, *rng.pick(&p.kinds)));
        }
    }
    if p.cyclic {
        // make sure at least one back edge exists
        let i = rng.usize(n);
        let j = rng.usize(i + 1);
        edges[i].push((j, *rng.pick(&p.kinds)));
    }

    // 2. layout; a leaf may be a plain css file
    let mut paths: Vec<String> = vec![];
    let rootdir = if rng.chance(1, 4) { "r" } else { "" };
    paths.push(if rootdir.is_empty() {
        "w/root.scss".to_string()
    } else {
        format!("w/{rootdir}/root.scss")
    });
    for i in 1..p.nfiles {
        let base = if p.nlp > 0 && rng.chance(1, 4) {
            bases[1 + rng.usize(p.nlp)].clone()
        } else {
            "w".to_string()
        };
        let dir = *rng.pick(&DIRS);
        let form = rng.below(8);
        // (C03 graphs: a plain css file can be a module too - it has css but no members; fewer of them)
        let css_leaf = edges[i].is_empty() && if p.c03 { rng.chance(1, 8) } else { rng.chance(1, 3) };
        let fname = match form {
            _ if css_leaf => {
                if rng.chance(1, 3) {
                    format!("_f{i}.css")
                } else {
                    format!("f{i}.css")
                }
            }
            0..=3 => format!("f{i}.scss"),
            4 | 5 => format!("_f{i}.scss"),
            6 => format!("f{i}/index.scss"),
            _ => format!("f{i}/_index.scss"),
        };
        let mut path = if dir.is_empty() { format!("{base}/{fname}") } else { format!("{base}/{dir}/{fname}") };
        // look-alike of an earlier file: another file whose name differs only in letter case, in the
        // partial underscore, in the extension, or in being a directory index - distinct files that a
        // sloppy lock/cache key would confuse
        if i >= 2 && rng.chance(1, 6) {
            let j = 1 + rng.usize(i - 1);
            if let Some(twin) = lookalike(&paths[j], rng.below(6), css_leaf) {
                // a css file cannot load anything: only a leaf drawn as css may get a css name
                if (!twin.ends_with(".css") || css_leaf) && !paths.contains(&twin) && !paths.iter().any(|q| q.starts_with(&format!("{}/", twin.trim_end_matches(".scss").trim_end_matches(".css")))) {
                    path = twin;
                }
            }
        }
        // a file called like the root in a directory called like the root's: `w/w/root.scss` is what
        // `w/root.scss` would be taken for if it were named relative to the wrong directory
        if i >= 1 && rootdir.is_empty() && !css_leaf && rng.chance(1, 14) && !paths.contains(&"w/w/root.scss".to_string()) {
            path = "w/w/root.scss".to_string();
        }
        paths.push(path);
    }
    let mut extra_dirs = vec![];
    for b in &bases {
        if rng.chance(1, 2) {
            extra_dirs.push(format!("{b}/x"));
        }
        if rng.chance(1, 4) {
            extra_dirs.push(format!("{b}/d/x"));
        }
    }
    let mut fs = SimFs::new();
    for b in &bases {
        fs.add_dir(b);
    }
    for d in &extra_dirs {
        fs.add_dir(d);
    }
    for pth in &paths {
        fs.add_file(pth, "");
    }

    // 3. statements
    let mut files: Vec<FileSpec> = vec![];
    for i in 0..n {
        let mut stmts: Vec<Stmt> = vec![];
        let mut forwarded: Vec<usize> = vec![];
        rng.shuffle(&mut edges[i]);
        for (k, (j, kind)) in edges[i].clone().into_iter().enumerate() {
            if kind == LoadKind::Forward {
                if forwarded.contains(&j) {
                    continue;
                }
                forwarded.push(j);
            }
            let Some(url) = spell(&fs, &bases, &paths[i], &paths[j], kind, p, rng) else {
                continue;
            };
            let wrap = if !p.wrappers {
                Wrap::None
            } else {
                match kind {
                    LoadKind::Import => match rng.below(8) {
                        0 | 1 => Wrap::Rule,
                        2 => Wrap::Media,
                        _ => Wrap::None,
                    },
                    LoadKind::LoadCss => *rng.pick(&[Wrap::None, Wrap::Rule, Wrap::If, Wrap::Mixin, Wrap::Each, Wrap::Media, Wrap::Content, Wrap::While]),
                    _ => Wrap::None,
                }
            };
            // configure the target only if this is the only load of it anywhere (a module may be configured once)
            let incoming: usize = edges.iter().map(|es| es.iter().filter(|(t, _)| *t == j).count()).sum();
            let with_cfg = !p.c03
                && incoming == 1
                && kind != LoadKind::Import
                && !paths[j].ends_with(".css")
                && rng.chance(1, 3);
            stmts.push(Stmt::Load { kind, url, target: j, wrap, ns: format!("n{k}"), with_cfg, filter: 0 });
        }
        let pos = rng.usize(stmts.len() + 1);
        stmts.insert(pos, if p.c03 && !paths[i].ends_with(".css") { Stmt::ModuleVars } else { Stmt::Marker });
        files.push(FileSpec { path: paths[i].clone(), stmts });
    }
    // a load written in a mixin of a library module and run from one of its users
    if p.wrappers && !p.c03 && n >= 2 && p.kinds.contains(&LoadKind::LoadCss) && rng.chance(1, 2) {
        let uses: Vec<(usize, usize, String)> = files
            .iter()
            .enumerate()
            .flat_map(|(x, f)| {
                f.stmts.iter().filter_map(move |s| match s {
                    Stmt::Load { kind: LoadKind::Use, target, ns, with_cfg: false, .. } if *target != x => {
                        Some((x, *target, ns.clone()))
                    }
                    _ => None,
                })
            })
            .collect();
        if !uses.is_empty() {
            let (x, lib, ns) = uses[rng.usize(uses.len())].clone();
            let t = if p.cyclic {
                Some(rng.usize(n))
            } else if x + 1 < n {
                Some(x + 1 + rng.usize(n - x - 1))
            } else {
                None
            };
            if let Some(t) = t {
                if !paths[lib].ends_with(".css") {
                    if let Some(url) = spell(&fs, &bases, &paths[lib], &paths[t], LoadKind::LoadCss, p, rng) {
                        let id = rng.below(1000) as u32;
                        let pos = rng.usize(files[lib].stmts.len() + 1);
                        files[lib].stmts.insert(pos, Stmt::DefMixin { id, url, target: t });
                        let pos = rng.usize(files[x].stmts.len() + 1);
                        files[x].stmts.insert(pos, Stmt::CallMixin { ns, lib, id });
                        // the loaded file runs the same library mixin again: the same load RULE (same
                        // source position) is reached while the file it loads is still loading
                        if p.cyclic && t != lib && t != x && !paths[t].ends_with(".css") && rng.chance(1, 2) {
                            if let Some(u2) = spell(&fs, &bases, &paths[t], &paths[lib], LoadKind::Use, p, rng) {
                                files[t].stmts.push(Stmt::Load {
                                    kind: LoadKind::Use,
                                    url: u2,
                                    target: lib,
                                    wrap: Wrap::None,
                                    ns: "nm".into(),
                                    with_cfg: false,
                                    filter: 0,
                                });
                                files[t].stmts.push(Stmt::CallMixin { ns: "nm".into(), lib, id });
                            }
                        }
                    }
                }
            }
        }
    }
    let merge_imports = rng.chance(1, 3);
    GraphSpec { files, extra_dirs, bases, fmt: Fmt::draw(rng), merge_imports, raw_text: Default::default() }
}
