//! Reference resolver: candidate file names for a url as stated by C04,
//! lexical normalisation, and the strict "resolves uniquely" test used by
//! the generators so that every generated lookup is unambiguous.

use crate::simfs::SimFs;
use std::collections::BTreeSet;

/// Candidate names for `url` (no extension) for `@use`/`@forward`, in order.
pub fn candidates_use(url: &str) -> Vec<String> {
    let (base, name) = url.rfind('/').map_or(("", url), |p| url.split_at(p + 1));
    vec![
        format!("{base}{name}.scss"),
        format!("{base}_{name}.scss"),
        format!("{base}{name}/index.scss"),
        format!("{base}{name}/_index.scss"),
        format!("{base}{name}.css"),
        format!("{base}_{name}.css"),
    ]
}

/// Candidate names for `@import`; `grouped` = import-only variants of a pair
/// first (`u.import`, `_u.import`, `u`, `_u`), otherwise pairwise
/// (`u.import`, `u`, `_u.import`, `_u`).
pub fn candidates_import(url: &str, grouped: bool) -> Vec<String> {
    let (base, name) = url.rfind('/').map_or(("", url), |p| url.split_at(p + 1));
    let f = |s: &str| s.replace("{b}", base).replace("{n}", name);
    let order: [&str; 10] = if grouped {
        [
            "{b}{n}.import.scss",
            "{b}_{n}.import.scss",
            "{b}{n}.scss",
            "{b}_{n}.scss",
            "{b}{n}/index.import.scss",
            "{b}{n}/_index.import.scss",
            "{b}{n}/index.scss",
            "{b}{n}/_index.scss",
            "{b}{n}.css",
            "{b}_{n}.css",
        ]
    } else {
        [
            "{b}{n}.import.scss",
            "{b}{n}.scss",
            "{b}_{n}.import.scss",
            "{b}_{n}.scss",
            "{b}{n}/index.import.scss",
            "{b}{n}/index.scss",
            "{b}{n}/_index.import.scss",
            "{b}{n}/_index.scss",
            "{b}{n}.css",
            "{b}_{n}.css",
        ]
    };
    order.iter().map(|s| f(s)).collect()
}

pub fn has_ext(url: &str) -> bool {
    url.ends_with(".css") || url.ends_with(".scss") || url.ends_with(".sass")
}

pub fn candidates(url: &str, import: bool, grouped: bool) -> Vec<String> {
    if has_ext(url) {
        vec![url.to_string()]
    } else if import {
        candidates_import(url, grouped)
    } else {
        candidates_use(url)
    }
}

/// Lexical `.`/`..` normalisation as URL resolution does it.
pub fn normalize(url: &str) -> String {
    let mut out: Vec<&str> = vec![];
    for seg in url.split('/') {
        match seg {
            "." => {}
            ".." if out.last().is_some_and(|s| !matches!(*s, "" | "..")) => {
                out.pop();
            }
            s => out.push(s),
        }
    }
    out.join("/")
}

/// Every file some reading could pick for (`importer_name`, `url`): the url
/// joined to the importer's (lexical) directory and the url unchanged, each
/// raw and normalised, each in every base, every candidate name.
pub fn all_matches(
    fs: &SimFs,
    bases: &[String],
    importer_name: &str,
    url: &str,
    import: bool,
) -> BTreeSet<String> {
    let idir = importer_name.rfind('/').map_or("", |p| &importer_name[..=p]);
    let mut urls = vec![format!("{idir}{url}"), url.to_string()];
    urls.push(normalize(&urls[0]));
    urls.push(normalize(url));
    let mut found = BTreeSet::new();
    for u in urls {
        for grouped in [true, false] {
            for c in candidates(&u, import, grouped) {
                for b in bases {
                    if let Some(p) = fs.resolve(b, &c) {
                        found.insert(p);
                    }
                }
            }
        }
    }
    found
}

/// The files the FIRST lookup round can pick for (`importer_name`, `url`): the url joined to the
/// importer's (lexical) directory, raw and normalised, in every base, every candidate name.  If
/// this set is exactly one file, every reading of the rule loads it, whatever the unchanged url
/// would also match elsewhere ("the URL is tried relative to the importing file first").
pub fn relative_matches(fs: &SimFs, bases: &[String], importer_name: &str, url: &str, import: bool) -> BTreeSet<String> {
    let idir = importer_name.rfind('/').map_or("", |p| &importer_name[..=p]);
    let joined = format!("{idir}{url}");
    let mut found = BTreeSet::new();
    for u in [joined.clone(), normalize(&joined)] {
        for grouped in [true, false] {
            for c in candidates(&u, import, grouped) {
                for b in bases {
                    if let Some(p) = fs.resolve(b, &c) {
                        found.insert(p);
                    }
                }
            }
        }
    }
    found
}

#[cfg(test)]
mod tests {
    use super::*;
    #[test]
    fn norm() {
        assert_eq!(normalize("./a"), "a");
        assert_eq!(normalize("d/../a"), "a");
        assert_eq!(normalize("../a"), "../a");
        assert_eq!(normalize("d/./e/../../a.scss"), "a.scss");
    }
}
