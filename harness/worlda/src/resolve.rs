//! Reference resolver: candidate file names for a url as stated by C04,
//! lexical normalisation, and the strict "resolves uniquely" test used by
//! the generators so that every generated lookup is unambiguous.

use crate::simfs::SimFs;
use std::collections::BTreeSet;

/// Candidate names for `url` (no extension) for `@use`/`@forward`, in order.
pub fn candidates_use(url: &str) -> Vec<String> {
    let (base, name) = url.rfind('/').map_or(("", url), |p| url.split_at(p + 1));
    vec![
        format!("{base}{name}.scss"),
        format!("{base}_{name}.scss"),
        format!("{base}{name}/index.scss"),
        format!("{base}{name}/_index.scss"),
        format!("{base}{name}.css"),
        format!("{base}_{name}.css"),
    ]
}

/// Candidate names for `@import`; `grouped` = import-only variants of a pair
/// first (`u.import`, `_u.import`, `u`, `_u`), otherwise pairwise
/// (`u.import`, `u`, `_u.import`, `_u`).
pub fn candidates_import(url: &str, grouped: bool) -> Vec<String> {
    let (base, name) = url.rfind('/').map_or(("", url), |p| url.split_at(p + 1));
    let f = |s: &str| s.replace("{b}", base).replace("{n}", name);
    let order: [&str; 10] = if grouped {
        [
            "{b}{n}.import.scss",
            "{b}_{n}.import.scss",
            "{b}{n}.scss",
            "{b}_{n}.scss",
            "{b}{n}/index.import.scss",
            "{b}{n}/_index.import.scss",
            "{b}{n}/index.scss",
            "{b}{n}/_index.scss",
            "{b}{n}.css",
            "{b}_{n}.css",
        ]
    } else {
        [
            "{b}{n}.import.scss",
            "{b}{n}.scss",
            "{b}_{n}.import.scss",
            "{b}_{n}.scss",
            "{b}{n}/index.import.scss",
            "{b}{n}/index.scss",
            "{b}{n}/_index.import.scss",
            "{b}{n}/_index.scss",
            "{b}{n}.css",
            "{b}_{n}.css",
        ]
    };
    order.iter().map(|s| f(s)).collect()
}

pub fn has_ext(url: &str) -> bool {
    url.ends_with(".css") || url.ends_with(".scss") || url.ends_with(".sass")
}

pub fn candidates(url: &str, import: bool, grouped: bool) -> Vec<String> {
    if has_ext(url) {
        vec![url.to_string()]
    } else if import {
        candidates_import(url, grouped)
    } else {
        candidates_use(url)
    }
}

/// Lexical `.`/`..` normalisation as URL resolution does it.
pub fn normalize(url: &str) -> String {
    let mut out: Vec<&str> = vec![];
    for seg in url.split('/') {
        match seg {
            "." => {}
            ".." if out.last().is_some_and(|s| !matches!(*s, "" | "..")) => {
                out.pop();
            }
            s => out.push(s),
        }
    }
    out.join("/")
}

/// Every file some reading could pick for (`importer_name`, `url`): the url
/// joined to the importer's (lexical) directory and the url unchanged, each
/// raw and normalised, each in every base, every candidate name.
pub fn all_matches(
    fs: &SimFs,
    bases: &[String],
    importer_name: &str,
    url: &str,
    import: bool,
) -> BTreeSet<String> {
    let idir = importer_name.rfind('/').map_or("", |p| &importer_name[..=p]);
    let mut urls = vec![format!("{idir}{url}"), url.to_string()];
    urls.push(normalize(&urls[0]));
    urls.push(normalize(url));
    let mut found = BTreeSet::new();
    for u in urls {
        for grouped in [true, false] {
            for c in candidates(&u, import, grouped) {
                for b in bases {
                    if let Some(p) = fs.resolve(b, &c) {
                        found.insert(p);
                    }
                }
            }
        }
    }
    found
}

/// The files the FIRST lookup round can pick for (`importer_name`, `url`): the url joined to the
/// importer's (lexical) directory, raw and normalised, in every base, every candidate name.  If
/// this set is exactly one file, every reading of the rule loads it, whatever the unchanged url
/// would also match elsewhere ("the URL is tried relative to the importing file first").
pub fn relative_matches(fs: &SimFs, bases: &[String], importer_name: &str, url: &str, import: bool) -> BTreeSet<String> {
    let idir = importer_name.rfind('/').map_or("", |p| &importer_name[..=p]);
    let joined = format!("{idir}{url}");
    let mut found = BTreeSet::new();
    for u in [joined.clone(), normalize(&joined)] {
        for grouped in [true, false] {
            for c in candidates(&u, import, grouped) {
                for b in bases {
                    if let Some(p) = fs.resolve(b, &c) {
                        found.insert(p);
                    }
                }
            }
        }
    }
    found
}

/// The file (`None` = nothing) that a load of `url` from `importer_name` reaches under EVERY admissible
/// reading of the resolution rule, i.e. over the product of
///   * candidate order: grouped / pairwise import-only variants (only differs for `@import`),
///   * search order inside a lookup round: directory-major / candidate-major (known finding F7),
///   * where the importer-relative round looks: only in the base the importer lives in / in every base
///     (known finding F6),
/// with the importer-relative round first and the unchanged url second.  A generated url is
/// unambiguous iff this set has exactly one element.
pub fn winners_under_all_readings(
    fs: &SimFs,
    bases: &[String],
    importer_base: usize,
    importer_name: &str,
    url: &str,
    import: bool,
) -> BTreeSet<Option<String>> {
    let idir = importer_name.rfind('/').map_or("", |p| &importer_name[..=p]);
    let rel = normalize(&format!("{idir}{url}"));
    let unchanged = normalize(url);
    let all: Vec<usize> = (0..bases.len()).collect();
    let mut out = BTreeSet::new();
    for grouped in [true, false] {
        for cand_major in [false, true] {
            for rel_everywhere in [true, false] {
                let round = |u: &str, where_: &[usize]| -> Option<String> {
                    let cs = candidates(u, import, grouped);
                    if cand_major {
                        cs.iter().find_map(|c| where_.iter().find_map(|b| fs.resolve(&bases[*b], c)))
                    } else {
                        where_.iter().find_map(|b| cs.iter().find_map(|c| fs.resolve(&bases[*b], c)))
                    }
                };
                let own = [importer_base];
                // an importer at the top of its base: relative and unchanged url coincide, one round everywhere
                let first = if rel == unchanged { round(&rel, &all) } else { round(&rel, if rel_everywhere { &all } else { &own }) };
                let w = match first {
                    Some(w) => Some(w),
                    None if rel != unchanged => round(&unchanged, &all),
                    None => None,
                };
                out.insert(w);
            }
        }
    }
    out
}

#[cfg(test)]
mod tests {
    use super::*;
    #[test]
    fn norm() {
        assert_eq!(normalize("./a"), "a");
        assert_eq!(normalize("d/../a"), "a");
        assert_eq!(normalize("../a"), "../a");
        assert_eq!(normalize("d/./e/../../a.scss"), "a.scss");
    }
}
