//! C02 — module loading terminates; only real cycles are loop errors.

use crate::core::*;
#[allow(unused_imports)]
use crate::core::StatsExt;
use crate::gen::{exhaustive_count, exhaustive_graph, gen_graph, twins_graph, GraphParams};
use crate::loader::*;
use crate::model::{reachable_cycle, run_model, work_bound, Verdict};
use crate::simfs::FsStore;
use crate::spec::*;
use serde::{Deserialize, Serialize};
use serde_json::{json, Value as Json};
use std::rc::Rc;
use vcommon::{Digest, Rng};

pub struct C02;

#[derive(Clone, Serialize, Deserialize)]
pub struct Case {
    pub spec: GraphSpec,
    pub chunk: Chunking,
    /// compile through rsass' own FsLoader over the simulated file system, the root opened by a path
    /// WITH a directory part (`w/root.scss` from the top of the tree), instead of through the stub
    #[serde(default)]
    pub via_fs: bool,
}

/// The same graph through `FsLoader::for_path("w/root.scss")` + `push_path`, file system simulated.
pub fn run_graph_real(spec: &GraphSpec, plan: &FaultPlan, chunk: Chunking, budget: u64) -> Outcome {
    let fs = spec.build_fs();
    run_job_real(&RealJob {
        fs: &fs,
        bases: &spec.bases,
        root_rel: &spec.root_name(),
        fmt: spec.fmt,
        plan,
        chunk,
        budget,
        via: Via::Fs,
        root_with_dir: true,
    })
}

pub fn graph_job_parts(spec: &GraphSpec) -> (Rc<FsStore>, String, String, Rc<Vec<u8>>) {
    let fs = spec.build_fs();
    let root_canon = spec.files[0].path.clone();
    let data = fs.file(&root_canon).unwrap();
    let store = Rc::new(FsStore { fs, bases: spec.bases.clone() });
    (store, spec.root_name(), root_canon, data)
}

pub fn run_graph(spec: &GraphSpec, plan: &FaultPlan, chunk: Chunking, budget: u64) -> Outcome {
    let (store, root_name, root_canon, data) = graph_job_parts(spec);
    run_job(&Job {
        store,
        root_name: &root_name,
        root_canon: &root_canon,
        root_data: data,
        fmt: spec.fmt,
        plan,
        chunk,
        budget,
    })
}

/// Did the last lookup of the history really find nothing (every candidate a
/// miss after the last hit)?  A "can't find" error after a lookup that DID
/// find its file is not a resolution failure but a mislabelled error.
pub fn resolution_failed(history: &[Event]) -> bool {
    let mut misses_after_last_hit = 0;
    for e in history {
        match e {
            Event::Find { res: FindRes::Hit { .. }, .. } => misses_after_last_hit = 0,
            Event::Find { res: FindRes::Miss, .. } => misses_after_last_hit += 1,
            _ => {}
        }
    }
    misses_after_last_hit > 0
}

fn kinds_str(ks: &[LoadKind]) -> String {
    ks.iter().map(|k| k.letter()).collect()
}

pub fn judge(case: &Case, stats: &mut Stats) -> (Judgement, Option<Outcome>) {
    let spec = &case.spec;
    let uncached = run_model(spec, false);
    if uncached.verdict == Verdict::TooBig {
        stats.inc("discarded_too_big");
        return (Judgement::Unjudged("too_big"), None);
    }
    let cyclic = reachable_cycle(spec);
    debug_assert_eq!(cyclic, uncached.verdict == Verdict::Loop);
    let cached = run_model(spec, true);
    // (the model stops at ITS first loop; the real execution may reach another one later, e.g. because
    // @use/@forward run before the body: the bound counts past loops)
    let Some(bound) = work_bound(spec) else {
        stats.inc("graphs_too_big");
        return (Judgement::Unjudged("too_big"), None);
    };
    let budget = 64 * (bound + 2);
    let plan = FaultPlan::default();
    let run = |chunk: Chunking| if case.via_fs { run_graph_real(spec, &plan, chunk, budget) } else { run_graph(spec, &plan, chunk, budget) };
    let o = run(Chunking::NONE);
    stats.compiled(&o);
    let sig = {
        let mut s = format!(
            "cyclic={} cycle_kinds={} cycle_alias={} nfiles={}",
            u8::from(cyclic),
            kinds_str(&cached.cycle_kinds),
            u8::from(cached.cycle_alias),
            spec.files.len()
        );
        if !cached.cycle_kinds.is_empty()
            && cached.cycle_kinds.iter().all(|k| *k == LoadKind::LoadCss)
        {
            s.push_str(" cycle_all_loadcss=1");
        }
        if let Some((_, _, k)) = cached.closing {
            s.push_str(&format!(" closing={}", k.letter()));
        }
        if case.via_fs {
            s.push_str(" loader=fs_over_simfs_root_with_dir");
        }
        s
    };
    if cyclic {
        stats.inc("probe:model_loop");
        if cached.cycle_alias {
            stats.inc("probe:alias_spelling_on_cycle");
        }
    } else {
        stats.inc("probe:model_acyclic");
        if uncached.loads > cached.loads {
            stats.inc("probe:file_loaded_many_times");
        }
    }
    if spec.loads().any(|(_, s)| matches!(s, Stmt::Load { url, .. } if !crate::model::is_canonical_spelling(url))) {
        stats.inc("probe:alias_spelling_used");
    }
    let expected = if cyclic { "loop error" } else { "no loop error" };
    // oracle 1: bounded liveness, always judged
    if o.budget_hit {
        return (
            Judgement::fail(
                "liveness",
                sig,
                format!(
                    "compilation did not end within {budget} loader lookups (model: {} loads, {expected}); result {}",
                    uncached.loads,
                    o.res.short()
                ),
            ),
            Some(o),
        );
    }
    if let Res::Panic(m) = &o.res {
        return (Judgement::fail("no_panic", sig, format!("compilation panicked: {m}")), Some(o));
    }
    let j = match (&o.res, cyclic) {
        (Res::Ok(_), false) => Judgement::Pass,
        (r, true) if r.is_loop() => {
            stats.inc("probe:loop_detected");
            Judgement::Pass
        }
        (r, false) if r.is_loop() => Judgement::fail(
            "spurious_loop",
            sig.clone(),
            format!("acyclic graph reported as a loop: {}", r.short()),
        ),
        (Res::Ok(_), true) => Judgement::fail(
            "loop_not_reported",
            sig.clone(),
            "a file was loaded while already being loaded, but the compilation succeeded".into(),
        ),
        (Res::Err { text, class }, true) => {
            // Every load of a generated graph resolves to an existing file by construction, and the
            // unchanged tree never answers "not found" here (0 of 60 000 runs), so a reachable cycle
            // must surface as a loop error and nothing else - also not as a "can't find" raised after
            // the loop error was dropped on the way up.  Only a parse error (generated syntax not
            // understood by this rsass) says nothing about loading.
            if *class == ErrClass::Parse {
                stats.inc("other_error");
                Judgement::Unjudged("other_error")
            } else {
                let not_found = text.contains("find stylesheet") || text.contains("not found");
                Judgement::fail(
                    "loop_not_reported",
                    format!("{sig} got={} lookup_missed_last={}", if not_found { "not_found" } else { "other_error" }, u8::from(resolution_failed(&o.history))),
                    format!("cycle reported as something else than a loop error: {}", o.res.short()),
                )
            }
        }
        (Res::Err { .. }, false) => {
            stats.inc("other_error");
            stats.inc(&format!("other_error:{}", o.res.short().chars().take(60).collect::<String>()));
            Judgement::Unjudged("other_error")
        }
        (Res::Panic(_), _) => unreachable!(),
    };
    if !matches!(j, Judgement::Pass) {
        return (j, Some(o));
    }
    // oracle 4: benign faults never change the result
    if case.chunk.is_benign_noise() {
        let o2 = run(case.chunk);
        stats.compiled(&o2);
        if o2.res != o.res {
            return (
                Judgement::fail(
                    "benign_changed_result",
                    sig,
                    format!(
                        "short reads / EINTR changed the result: {} vs {}",
                        o.res.short(),
                        o2.res.short()
                    ),
                ),
                Some(o2),
            );
        }
    }
    (Judgement::Pass, Some(o))
}

fn to_violations(case: &Case, j: Judgement, o: Option<&Outcome>) -> Vec<Violation> {
    match j {
        Judgement::Fail { oracle, signature, detail } => {
            let mut cj = serde_json::to_value(case).unwrap();
            // explicit file contents for the reader (replay re-renders from spec)
            let fs = case.spec.build_fs();
            cj["files_rendered"] = Json::Object(
                fs.files()
                    .map(|(p, d)| (p.clone(), json!(String::from_utf8_lossy(d))))
                    .collect(),
            );
            if let Some(o) = o {
                cj["history"] = serde_json::to_value(&o.history).unwrap();
                cj["history_digest"] = json!(vcommon::hex(o.history_digest()));
            }
            vec![Violation {
                property: "C02".into(),
                oracle,
                signature,
                detail,
                case: cj,
                seed: 0,
                index: 0,
                minimised: false,
                shrink_steps: 0,
            }]
        }
        _ => vec![],
    }
}

impl Prop for C02 {
    fn id(&self) -> &'static str {
        "C02"
    }
    fn level(&self) -> &'static str {
        "exploration"
    }
    fn runs(&self, tier: Tier) -> u64 {
        let small = 4 * (exhaustive_count(1) + exhaustive_count(2));
        match tier {
            Tier::Quick => small + 60_000,
            Tier::Thorough => small + 2 * exhaustive_count(3) + 3_000_000,
        }
    }
    fn run(&self, seed: u64, index: u64, tier: Tier, stats: &mut Stats) -> Vec<Violation> {
        let mut rng = Rng::new(seed);
        // exhaustive sections first: all graphs over 1 and 2 files (quick and thorough), over 3 files
        // (thorough), each under four layout variants (canonical / aliased urls x marker position)
        let small = 4 * (exhaustive_count(1) + exhaustive_count(2));
        let three = if tier == Tier::Thorough { 2 * exhaustive_count(3) } else { 0 };
        if index < small + three {
            let (n, code, variant) = if index < 4 * exhaustive_count(1) {
                (1, index / 4, index % 4)
            } else if index < small {
                let k = index - 4 * exhaustive_count(1);
                (2, k / 4, k % 4)
            } else {
                let k = index - small;
                (3, k / 2, k % 2)
            };
            let spec = exhaustive_graph(n, code, variant, &mut rng);
            let case = Case { spec, chunk: Chunking::NONE, via_fs: false };
            stats.inc("runs");
            stats.inc(&format!("stratum:exhaustive_n{n}"));
            let (j, o) = judge(&case, stats);
            match &j {
                Judgement::Pass | Judgement::Fail { .. } => stats.inc("judged"),
                Judgement::Unjudged(_) => stats.inc("unjudged"),
            }
            if let Some(o) = &o {
                stats.nontrivial(o.history_digest());
            }
            return to_violations(&case, j, o.as_ref());
        }
        let mut params = GraphParams::stratified(index % GraphParams::STRATA, &mut rng);
        if index % 53 == 7 {
            // a long chain of nested loads (33-48 files deep): depth is not a cycle
            params.nfiles = 33 + rng.usize(16);
            params.chain = true;
            params.density_q = 0;
            stats.inc("probe:deep_chain");
        }
        // every 41st run: byte-identical twin files in two directories
        let twins = index % 41 == 9;
        if twins {
            stats.inc("probe:identical_twin_files");
        }
        let spec = if twins { twins_graph(&mut rng) } else { gen_graph(&params, &mut rng) };
        let chunk = if rng.chance(1, 3) { Chunking::draw_for_generated(&mut rng) } else { Chunking::NONE };
        // graphs whose root sits directly in its base are, every third time, compiled through the real
        // FsLoader with the root opened as `w/root.scss` (how a root is NAMED must not matter to locking)
        let via_fs = index % 3 == 1 && !spec.root_name().contains('/');
        if via_fs {
            stats.inc("probe:through_fsloader_root_with_dir");
        }
        let case = Case { spec, chunk, via_fs };
        stats.inc("runs");
        stats.inc(&format!("stratum:{}", params.stratum_name()));
        let (j, o) = judge(&case, stats);
        if index % 40 == 7 {
            if let Some(o) = &o {
                if !o.budget_hit {
                    let (store, root_name, root_canon, _) = graph_job_parts(&case.spec);
                    let real = crate::xval::real_result(&store.fs, &case.spec.bases, &root_canon, &root_name, case.spec.fmt, &format!("c02-{index}"));
                    stats.inc("probe:stub_validated_against_real");
                    if real != o.res {
                        stats.inc("xval_mismatch");
                        stats.sample(8, || json!({"xval_mismatch": true, "index": index, "sim": o.res.short(), "real": real.short()}));
                    }
                }
            }
        }
        match &j {
            Judgement::Pass => stats.inc("judged"),
            Judgement::Fail { .. } => stats.inc("judged"),
            Judgement::Unjudged(_) => stats.inc("unjudged"),
        }
        if let Some(o) = &o {
            if case.spec.loads().next().is_some() {
                let mut d = Digest::new();
                d.u64(o.history_digest());
                stats.nontrivial(d.finish());
            }
            stats.sample(4, || {
                json!({
                    "seed": vcommon::hex(seed),
                    "index": index,
                    "stratum": params.stratum_name(),
                    "files": case.spec.files.iter().enumerate().map(|(i, f)| json!({"path": f.path, "text": case.spec.render_file(i)})).collect::<Vec<_>>(),
                    "bases": case.spec.bases,
                    "chunking": case.chunk,
                    "history": o.history,
                    "result": o.res.short(),
                })
            });
        }
        to_violations(&case, j, o.as_ref())
    }
    fn replay(&self, case: &Json, stats: &mut Stats) -> Vec<Violation> {
        let Ok(case) = serde_json::from_value::<Case>(case.clone()) else {
            return vec![];
        };
        let (j, o) = judge(&case, stats);
        to_violations(&case, j, o.as_ref())
    }
    fn shrink_candidates(&self, case: &Json) -> Vec<Json> {
        let Ok(case) = serde_json::from_value::<Case>(case.clone()) else {
            return vec![];
        };
        let mut out = vec![];
        if case.chunk != Chunking::NONE {
            out.push(serde_json::to_value(Case { spec: case.spec.clone(), chunk: Chunking::NONE, via_fs: case.via_fs }).unwrap());
        }
        for g in graph_shrinks(&case.spec) {
            out.push(serde_json::to_value(Case { spec: g, chunk: case.chunk, via_fs: case.via_fs }).unwrap());
        }
        out
    }
    fn evidence_extra(&self, stats: &Stats) -> Json {
        crate::core::world_a_extra(stats)
    }
    fn rule(&self) -> String {
        "Runs 0..2520 enumerate EVERY directed graph over 1 and over 2 files in which each ordered pair of files (self-loops included) carries no load or one load of one of the four kinds, under four layout variants (canonical / aliased urls x marker before / after the loads); in the thorough tier the next 3 906 250 runs enumerate every such graph over 3 files (5^9) under two variants. The remaining runs: one generated load graph (1-4 files, sometimes 5-8, every 53rd a chain 33-48 files deep; edges drawn from @use/@forward/@import/meta.load-css; urls spelled canonically or with ./, x/../ and ../d/ noise; 0-2 load paths; wrappers) compiled by the real library through SimLoader, judged against reachability of a cycle over canonical file identity; strata = file count x kind subset x spelling class x cyclic, hit round-robin. A run is non-trivial when the graph has at least one load; distinct = distinct digests of (loader event history, result). Every 40th run is also materialised on the real file system and compiled through the real FsLoader; the result must equal the simulated one (probe stub_validated_against_real).".into()
    }
    fn assumptions(&self) -> Vec<String> {
        vec![
            "SimFs has POSIX lexical path semantics without symlinks; cross-validated against the real FsLoader on a sample".into(),
            "generated files contain only loads and marker rules, so Ok or a loop error are the only legitimate results; other errors leave a run unjudged (at least 90% of runs must be judged)".into(),
            "liveness is bounded: 64 x (loads of the uncached reference execution, counted past loads of files in progress, + 2) loader lookups".into(),
        ]
    }
    fn sanity(&self, stats: &Stats, _tier: Tier) -> Vec<String> {
        let mut errs = vec![];
        let judged = stats.c.get("judged");
        let runs = stats.c.get("runs");
        if runs > 0 && judged * 10 < runs * 9 {
            errs.push(format!("only {judged} of {runs} runs were judged (<90%)"));
        }
        if stats.c.get("xval_mismatch") > 0 {
            errs.push(format!(
                "{} configurations gave different results through SimLoader and through the real FsLoader (the stub misrepresents the file system)",
                stats.c.get("xval_mismatch")
            ));
        }
        for p in ["probe:model_loop", "probe:model_acyclic", "probe:alias_spelling_used", "probe:file_loaded_many_times", "probe:stub_validated_against_real"] {
            if runs >= 1000 && stats.c.get(p) == 0 {
                errs.push(format!("probe {p} stuck at zero"));
            }
        }
        errs
    }
}
