//! World A's view of the shared driver types.

pub use vcommon::core::*;
use crate::loader::{Outcome, Res};

pub trait StatsExt {
    /// Account for one compilation through the simulator.
    fn compiled(&mut self, o: &Outcome);
}

impl StatsExt for Stats {
    fn compiled(&mut self, o: &Outcome) {
        self.fold(o.history_digest_stable());
        self.c.inc("compilations");
        self.c.add("loader_events", o.history.len() as u64);
        self.c.add("finds", o.finds);
        self.c.add("files_opened", o.hits);
        for (k, v) in &o.fired.0 {
            self.c.add(&format!("fired:{k}"), *v);
        }
        match &o.res {
            Res::Ok(_) => self.c.inc("result:ok"),
            Res::Err { class, .. } => self.c.inc(&format!("result:err:{class:?}")),
            Res::Panic(_) => self.c.inc("result:panic"),
        }
        if o.budget_hit {
            self.c.inc("result:budget_exceeded");
        }
    }
}

/// Evidence keys common to all world-A checks.
pub fn world_a_extra(stats: &Stats) -> serde_json::Value {
    serde_json::json!({
        "logical_steps": stats.c.get("loader_events"),
        "logical_steps_unit": "loader events (find_file calls and read streams)",
        "simulated_time_note": "rsass has no clock, timer or deadline (std::time is routed to a settable clock whose reads are counted: probe clock_reads); time is reported as logical steps",
        "how_rsass_is_built": "instrumented copy of /repo/rsass/src made at check time by tools/instrument.py (std::sync/std::thread/thread_local!/std::time -> harness/shim in std mode = the std items themselves; std::fs and the path predicates of input/ -> harness/fsshim, pass-through unless a SimFs backend is installed on the thread)",
        "components": {
            "real": [
                "rsass parser, evaluator, Context (lock set), CssData (module cache), output",
                "rsass' own FsLoader and CargoLoader (C04: every layout / every 3rd; C39: every generated graph / every 3rd) running over the simulated file system; FsLoader on the real disk (C04 every 6th layout, C02/C04 cross-validation every 40th run)",
                "std::sync primitives",
                "arc_swap, fastrand, nom"
            ],
            "stub": [
                "file system: SimFs (in-memory POSIX-like tree: lexical . and .., no symlinks, case-sensitive, open() of a directory succeeds and fails on read) with the fault layer - below the Loader trait for the stub loader, below std::fs for the real loaders",
                "Loader implementation where the stub is used: SimLoader over SimFs or over the spec corpus' mock table"
            ],
            "not_run": ["rsass-cli (C40 runs it as a real process)"],
        },
    })
}
