//! World A's view of the shared driver types.

pub use vcommon::core::*;
use crate::loader::{Outcome, Res};

pub trait StatsExt {
    /// Account for one compilation through the simulator.
    fn compiled(&mut self, o: &Outcome);
}

impl StatsExt for Stats {
    fn compiled(&mut self, o: &Outcome) {
        self.fold(o.history_digest_stable());
        self.c.inc("compilations");
        self.c.add("loader_events", o.history.len() as u64);
        self.c.add("finds", o.finds);
        self.c.add("files_opened", o.hits);
        for (k, v) in &o.fired.0 {
            self.c.add(&format!("fired:{k}"), *v);
        }
        match &o.res {
            Res::Ok(_) => self.c.inc("result:ok"),
            Res::Err { class, .. } => self.c.inc(&format!("result:err:{class:?}")),
            Res::Panic(_) => self.c.inc("result:panic"),
        }
        if o.budget_hit {
            self.c.inc("result:budget_exceeded");
        }
    }
}

/// Evidence keys common to all world-A checks.
pub fn world_a_extra(stats: &Stats) -> serde_json::Value {
    serde_json::json!({
        "logical_steps": stats.c.get("loader_events"),
        "logical_steps_unit": "loader events (find_file calls and read streams)",
        "simulated_time_note": "rsass has no clock, timer or deadline; time is reported as logical steps",
        "components": {
            "real": ["rsass parser, evaluator, Context (lock set), CssData (module cache), output", "std::sync primitives", "arc_swap, fastrand, nom"],
            "stub": ["Loader implementation: SimLoader over SimFs (in-memory POSIX-like tree) or over the spec corpus' mock table, with the fault layer"],
            "not_run": ["rsass-cli", "FsLoader / CargoLoader (cross-validated separately)"],
        },
    })
}
