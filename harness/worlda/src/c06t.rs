//! C06 (OS-thread part) — unique-id() is unique across everything one real
//! process does, including compilations on different OS threads (started one
//! after another, so the run is deterministic), and random() stays in range
//! with the real generator.

use crate::c05h::{hist_extra, history_shrinks, Case};
use crate::core::*;
use crate::hist::*;
use crate::loader::*;
use serde_json::{json, Value as Json};
use vcommon::ids::{check_output, draw_fastrand_seed, draw_limit, id_program_ordered, IdLedger};
use vcommon::pool::{Fmt as PFmt, Item};
use vcommon::Rng;

pub struct C06T;

fn judge(steps: &[Step], stats: &mut Stats) -> Vec<(String, String, String)> {
    let mut fails = vec![];
    let h = run_history(steps);
    stats.inc("history_processes");
    stats.add("compilations", h.results.len() as u64);
    if let Some(k) = h.died_at {
        fails.push(("process_died".to_string(), format!("at={k}"), format!("the process died ({}) in compilation {k}", h.status)));
    }
    let mut ledger = IdLedger::default();
    let mut thread_no = 0usize;
    // identifiers embed the process id: only the shape of the outputs is a function of the seed
    for r in &h.results {
        stats.fold_str(&match &r.res { Res::Ok(css) => format!("ok {}", vcommon::ids::decls(css).len()), o => o.short() });
    }
    for (k, r) in h.results.iter().enumerate() {
        if steps[k].thread {
            thread_no += 1;
            stats.inc("probe:ids_from_other_os_thread");
        }
        let t = if steps[k].thread { thread_no } else { 0 };
        match &r.res {
            Res::Ok(css) => {
                for (o, s, d) in check_output(&mut ledger, t, k, css, stats) {
                    fails.push((o, format!("threads=seq {s}"), d));
                }
            }
            other => fails.push((
                "compile_failed".into(),
                String::new(),
                format!("compilation {k} did not compile: {}", other.short()),
            )),
        }
    }
    fails.dedup_by(|a, b| a.0 == b.0);
    fails
}

fn draw_steps(rng: &mut Rng, index: u64, stats: &mut Stats) -> Vec<Step> {
    let n = 2 + rng.usize(19);
    (0..n)
        .map(|k| {
            // every 40th history contains one long compilation: a counter kept in too narrow a type wraps
            let calls = if index % 150 == 149 && k == 1 { 35_000 } else { *rng.pick(&[1usize, 2, 3, 10, 50]) };
            let limits: Vec<u64> = (0..rng.usize(6)).map(|_| draw_limit(rng)).collect();
            let mut item = Item::simple(&format!("ids{calls}-{k}"), &id_program_ordered(calls, &limits, rng.chance(1, 2)));
            item.fmt = PFmt { compressed: rng.chance(1, 3), precision: *rng.pick(&[0usize, 5, 10, 20]) };
            item.nondet = true;
            Step { item, chunk: Chunking::NONE, plan: FaultPlan::default(), thread: rng.chance(1, 2), subject: true, fastrand_seed: if rng.chance(1, 3) { Some(draw_fastrand_seed(rng, stats)) } else { None }, clock: Some(crate::hist::draw_clock(rng)) }
        })
        .collect()
}

fn to_violations(steps: &[Step], fails: Vec<(String, String, String)>) -> Vec<Violation> {
    fails
        .into_iter()
        .map(|(oracle, signature, detail)| Violation {
            property: "C06".into(),
            oracle,
            signature,
            detail,
            case: serde_json::to_value(Case { steps: steps.to_vec() }).unwrap(),
            seed: 0,
            index: 0,
            minimised: false,
            shrink_steps: 0,
        })
        .collect()
}

impl Prop for C06T {
    fn id(&self) -> &'static str {
        "C06"
    }
    fn level(&self) -> &'static str {
        "exploration"
    }
    fn runs(&self, tier: Tier) -> u64 {
        match tier {
            Tier::Quick => 1_500,
            Tier::Thorough => 60_000,
        }
    }
    fn run(&self, seed: u64, index: u64, _tier: Tier, stats: &mut Stats) -> Vec<Violation> {
        let mut rng = Rng::new(seed);
        let steps = draw_steps(&mut rng, index, stats);
        stats.inc("runs");
        let fails = judge(&steps, stats);
        let mut d = vcommon::Digest::new();
        for s in &steps {
            d.u64(s.item.digest()).u64(u64::from(s.thread));
        }
        stats.nontrivial(d.finish());
        stats.sample(2, || {
            json!({
                "seed": vcommon::hex(seed),
                "index": index,
                "history": steps.iter().map(|s| json!({"item": s.item.name, "own_os_thread": s.thread})).collect::<Vec<_>>(),
                "first_input": steps[0].item.input,
            })
        });
        to_violations(&steps, fails)
    }
    fn replay(&self, case: &Json, stats: &mut Stats) -> Vec<Violation> {
        let Ok(case) = serde_json::from_value::<Case>(case.clone()) else {
            return vec![];
        };
        let fails = judge(&case.steps, stats);
        to_violations(&case.steps, fails)
    }
    fn shrink_candidates(&self, case: &Json) -> Vec<Json> {
        let Ok(case) = serde_json::from_value::<Case>(case.clone()) else {
            return vec![];
        };
        history_shrinks(&case.steps).into_iter().map(|s| serde_json::to_value(Case { steps: s }).unwrap()).collect()
    }
    fn evidence_extra(&self, stats: &Stats) -> Json {
        hist_extra(stats)
    }
    fn max_workers(&self) -> Option<usize> {
        // every run forks a fresh process, and fork is serialised system-wide in this sandbox
        Some(3)
    }
    fn rule(&self) -> String {
        "One run = one history of 2-20 compilations of unique-id()/random() programs executed one after another in ONE fresh OS process with the real std primitives and the real generator, about half of them on freshly spawned OS threads (joined before the next one starts, so the run is deterministic). All identifiers of the process must be pairwise distinct valid CSS identifiers; floor(random()) prints 0; random($l) prints an integer in [1, $l]. Distinct = distinct (program, thread) sequences.".into()
    }
    fn assumptions(&self) -> Vec<String> {
        vec!["OS threads run strictly one after another; truly concurrent real threads are covered by the shuttle part of this check".into()]
    }
    fn sanity(&self, stats: &Stats, _tier: Tier) -> Vec<String> {
        let mut e = vec![];
        if stats.c.get("runs") >= 300 {
            for p in ["ids_checked", "probe:ids_from_other_os_thread", "random_limit_checked"] {
                if stats.c.get(p) == 0 {
                    e.push(format!("{p} stuck at zero"));
                }
            }
        }
        e
    }
}
