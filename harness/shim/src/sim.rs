//! Shuttle mode of the shim: drop-in replacements for the `std::sync` /
//! `std::thread` items, routed through shuttle so that a seeded scheduler
//! decides every lock acquisition, atomic access, `Once`, lazy-static
//! initialisation and thread-local access of rsass.
//!
//! `Mutex` and `LazyLock` are wrappers (acquisition trace for the interleaving
//! signature; `const`-constructible lazy static with `Deref`); `OnceLock` is
//! built on shuttle's per-execution `Once`; the rest is shuttle's own.
//! The `LazyLock` wrapper needs one lifetime extension (sound because every
//! `LazyLock` in rsass is a `static`).

use std::ops::Deref;

pub use shuttle::sync::{atomic, mpsc, Barrier, BarrierWaitResult, Condvar, Once, OnceState, WaitTimeoutResult};
pub use shuttle::sync::{RwLock, RwLockReadGuard, RwLockWriteGuard};
/// shuttle's `Arc` is std's `Arc` (no scheduling points), so use std's directly.
pub use std::sync::{Arc, Weak};
pub use std::sync::{LockResult, PoisonError, TryLockError, TryLockResult};

pub mod thread {
    pub use shuttle::thread::*;
}

/// Trace of lock acquisitions, for the interleaving signature.
pub mod trace {
    use std::sync::Mutex as StdMutex;

    #[derive(Clone, Copy, Debug, PartialEq, Eq, Hash, PartialOrd, Ord)]
    pub struct Acq {
        /// shuttle task id (usize::MAX outside shuttle)
        pub task: usize,
        /// identity of the mutex: rank of its first acquisition within the execution
        pub lock: usize,
    }

    static TRACE: StdMutex<Vec<Acq>> = StdMutex::new(Vec::new());
    static ENABLED: std::sync::atomic::AtomicBool = std::sync::atomic::AtomicBool::new(false);
    /// Lock identities are handed out in order of first acquisition within an
    /// execution (addresses are reused by the allocator and differ between
    /// processes, so they cannot serve as identities).
    static NEXT_ID: std::sync::atomic::AtomicUsize = std::sync::atomic::AtomicUsize::new(1);
    static EPOCH: std::sync::atomic::AtomicUsize = std::sync::atomic::AtomicUsize::new(1);

    pub fn enable(on: bool) {
        if on {
            // new execution: identities start again (old mutexes keep stale ids of an older epoch)
            NEXT_ID.store(1, std::sync::atomic::Ordering::Relaxed);
            EPOCH.fetch_add(1, std::sync::atomic::Ordering::Relaxed);
        }
        ENABLED.store(on, std::sync::atomic::Ordering::Relaxed);
    }
    pub(crate) fn enabled() -> bool {
        ENABLED.load(std::sync::atomic::Ordering::Relaxed)
    }
    pub(crate) fn epoch() -> usize {
        EPOCH.load(std::sync::atomic::Ordering::Relaxed)
    }
    pub(crate) fn fresh_id() -> usize {
        NEXT_ID.fetch_add(1, std::sync::atomic::Ordering::Relaxed)
    }
    pub(crate) fn record(lock: usize) {
        if !ENABLED.load(std::sync::atomic::Ordering::Relaxed) {
            return;
        }
        let task = shuttle::current::get_current_task().map_or(usize::MAX, usize::from);
        // never held across a scheduling point
        TRACE.lock().unwrap_or_else(|e| e.into_inner()).push(Acq { task, lock });
    }
    static LAZY: StdMutex<Vec<(usize, usize)>> = StdMutex::new(Vec::new());
    /// A task found a lazy static not yet initialised (in this execution) and goes on to initialise it.
    pub(crate) fn lazy_attempt(lazy: usize) {
        if !enabled() {
            return;
        }
        let task = shuttle::current::get_current_task().map_or(usize::MAX, usize::from);
        LAZY.lock().unwrap_or_else(|e| e.into_inner()).push((lazy, task));
    }
    /// Number of lazy statics whose initialisation was attempted by more than one task.
    pub fn take_contended_lazies() -> usize {
        let v = std::mem::take(&mut *LAZY.lock().unwrap_or_else(|e| e.into_inner()));
        let mut by: std::collections::BTreeMap<usize, Vec<usize>> = std::collections::BTreeMap::new();
        for (l, t) in v {
            let e = by.entry(l).or_default();
            if !e.contains(&t) {
                e.push(t);
            }
        }
        by.values().filter(|t| t.len() > 1).count()
    }
    /// Take the trace recorded since the last call.
    pub fn take() -> Vec<Acq> {
        std::mem::take(&mut *TRACE.lock().unwrap_or_else(|e| e.into_inner()))
    }
}

/// `std::sync::Mutex` look-alike over `shuttle::sync::Mutex`.
#[derive(Debug, Default)]
pub struct Mutex<T: ?Sized> {
    /// (epoch << 32 | id), 0 = not yet acquired
    ident: std::sync::atomic::AtomicUsize,
    inner: shuttle::sync::Mutex<T>,
}

pub type MutexGuard<'a, T> = shuttle::sync::MutexGuard<'a, T>;

impl<T> Mutex<T> {
    pub const fn new(t: T) -> Self {
        Mutex { ident: std::sync::atomic::AtomicUsize::new(0), inner: shuttle::sync::Mutex::new(t) }
    }
}

impl<T> Mutex<T> {
    pub fn into_inner(self) -> LockResult<T> {
        self.inner.into_inner()
    }
}

impl<T> From<T> for Mutex<T> {
    fn from(t: T) -> Self {
        Mutex::new(t)
    }
}

impl<T: ?Sized> Mutex<T> {
    pub fn try_lock(&self) -> TryLockResult<MutexGuard<'_, T>> {
        self.inner.try_lock()
    }
    pub fn get_mut(&mut self) -> LockResult<&mut T> {
        self.inner.get_mut()
    }
    pub fn is_poisoned(&self) -> bool {
        // shuttle does not expose the flag; a poisoned lock shows on the next lock()
        false
    }
    pub fn clear_poison(&self) {}
    pub fn lock(&self) -> LockResult<MutexGuard<'_, T>> {
        if trace::enabled() {
            use std::sync::atomic::Ordering::Relaxed;
            let ep = trace::epoch();
            let mut v = self.ident.load(Relaxed);
            if v >> 32 != ep {
                v = (ep << 32) | trace::fresh_id();
                self.ident.store(v, Relaxed);
            }
            trace::record(v & 0xffff_ffff);
        }
        self.inner.lock()
    }
}

/// `std::sync::LazyLock` look-alike: initialisation goes through shuttle's
/// `Once`, whose state is per execution, so the value is computed afresh in
/// every shuttle execution (= simulated process) and the race for who
/// initialises it is part of the schedule.  Like a real static the value is
/// never dropped: the value of an earlier execution is leaked, so a reference
/// to it that the code under test keeps in a plain `static` stays valid
/// memory (shuttle's own `lazy_static` drops at the end of the execution).
pub struct LazyLock<T, F = fn() -> T> {
    once: Once,
    ptr: std::sync::atomic::AtomicPtr<T>,
    init: F,
    /// epoch in which a `deref` has completed (only for the contention probe)
    done_epoch: std::sync::atomic::AtomicUsize,
}

// SAFETY: as for std's LazyLock; the pointer is written once per execution under `once`.
unsafe impl<T: Sync + Send, F: Send> Sync for LazyLock<T, F> {}
unsafe impl<T: Send, F: Send> Send for LazyLock<T, F> {}

impl<T, F: Fn() -> T> LazyLock<T, F> {
    pub const fn new(f: F) -> Self {
        LazyLock {
            once: Once::new(),
            ptr: std::sync::atomic::AtomicPtr::new(std::ptr::null_mut()),
            init: f,
            done_epoch: std::sync::atomic::AtomicUsize::new(0),
        }
    }
    /// `LazyLock::force(&X)`
    pub fn force(this: &LazyLock<T, F>) -> &T {
        this
    }
    fn get(&self) -> &T {
        use std::sync::atomic::Ordering::SeqCst;
        self.once.call_once(|| {
            let v = Box::new((self.init)());
            self.ptr.store(Box::into_raw(v), SeqCst);
        });
        // SAFETY: set by the initialiser of this execution, never freed
        unsafe { &*self.ptr.load(SeqCst) }
    }
}

impl<T, F: Fn() -> T> Deref for LazyLock<T, F> {
    type Target = T;
    fn deref(&self) -> &T {
        use std::sync::atomic::Ordering::Relaxed;
        let ep = trace::epoch();
        if self.done_epoch.load(Relaxed) != ep {
            trace::lazy_attempt(std::ptr::from_ref(self).cast::<()>() as usize);
            let v = self.get();
            self.done_epoch.store(ep, Relaxed);
            return v;
        }
        self.get()
    }
}

impl<T: std::fmt::Debug, F: Fn() -> T> std::fmt::Debug for LazyLock<T, F> {
    fn fmt(&self, f: &mut std::fmt::Formatter<'_>) -> std::fmt::Result {
        f.write_str("LazyLock(..)")
    }
}

/// `std::sync::OnceLock` look-alike over shuttle's `Once`, whose state is per
/// execution: a `static` OnceLock is empty again in the next simulated process.
/// The value of an earlier execution is leaked, never dropped or overwritten.
pub struct OnceLock<T> {
    once: Once,
    ptr: std::sync::atomic::AtomicPtr<T>,
}

// SAFETY: same bounds as std's OnceLock; `Once` orders the single write before every read.
unsafe impl<T: Sync + Send> Sync for OnceLock<T> {}
unsafe impl<T: Send> Send for OnceLock<T> {}

impl<T> Default for OnceLock<T> {
    fn default() -> Self {
        Self::new()
    }
}

impl<T: std::fmt::Debug> std::fmt::Debug for OnceLock<T> {
    fn fmt(&self, f: &mut std::fmt::Formatter<'_>) -> std::fmt::Result {
        f.debug_tuple("OnceLock").field(&self.get()).finish()
    }
}

impl<T> OnceLock<T> {
    pub const fn new() -> Self {
        OnceLock { once: Once::new(), ptr: std::sync::atomic::AtomicPtr::new(std::ptr::null_mut()) }
    }
    pub fn get(&self) -> Option<&T> {
        if self.once.is_completed() {
            // SAFETY: written before `once` completed in this execution, never freed
            unsafe { self.ptr.load(std::sync::atomic::Ordering::SeqCst).as_ref() }
        } else {
            None
        }
    }
    pub fn set(&self, value: T) -> Result<(), T> {
        let mut v = Some(value);
        self.once.call_once(|| {
            let b = Box::new(v.take().expect("value"));
            self.ptr.store(Box::into_raw(b), std::sync::atomic::Ordering::SeqCst);
        });
        match v {
            None => Ok(()),
            Some(v) => Err(v),
        }
    }
    pub fn get_or_init<F: FnOnce() -> T>(&self, f: F) -> &T {
        self.once.call_once(|| {
            let b = Box::new(f());
            self.ptr.store(Box::into_raw(b), std::sync::atomic::Ordering::SeqCst);
        });
        self.get().expect("initialised")
    }
    pub fn into_inner(self) -> Option<T> {
        if self.once.is_completed() {
            let p = self.ptr.load(std::sync::atomic::Ordering::SeqCst);
            if p.is_null() {
                None
            } else {
                // SAFETY: sole owner; the allocation came from Box::into_raw
                Some(*unsafe { Box::from_raw(p) })
            }
        } else {
            None
        }
    }
}

// ---------------------------------------------------------------------------
// thread_local!: shuttle's per-task storage behind a key type that also has the
// convenience methods of std's `LocalKey<RefCell<T>>` / `LocalKey<Cell<T>>`.

#[doc(hidden)]
pub use shuttle as __shuttle;

/// `std::thread::LocalKey` look-alike over shuttle's per-task storage.
pub struct LocalKey<T: 'static> {
    #[doc(hidden)]
    pub inner: shuttle::thread::LocalKey<T>,
}

impl<T: 'static> std::fmt::Debug for LocalKey<T> {
    fn fmt(&self, f: &mut std::fmt::Formatter<'_>) -> std::fmt::Result {
        f.write_str("LocalKey(..)")
    }
}

impl<T: 'static> LocalKey<T> {
    pub fn with<F, R>(&'static self, f: F) -> R
    where
        F: FnOnce(&T) -> R,
    {
        self.inner.with(f)
    }
    pub fn try_with<F, R>(&'static self, f: F) -> Result<R, shuttle::thread::AccessError>
    where
        F: FnOnce(&T) -> R,
    {
        self.inner.try_with(f)
    }
}

impl<T: 'static> LocalKey<std::cell::RefCell<T>> {
    pub fn with_borrow<F, R>(&'static self, f: F) -> R
    where
        F: FnOnce(&T) -> R,
    {
        self.inner.with(|c| f(&c.borrow()))
    }
    pub fn with_borrow_mut<F, R>(&'static self, f: F) -> R
    where
        F: FnOnce(&mut T) -> R,
    {
        self.inner.with(|c| f(&mut c.borrow_mut()))
    }
    pub fn set(&'static self, value: T) {
        self.inner.with(|c| *c.borrow_mut() = value);
    }
    pub fn take(&'static self) -> T
    where
        T: Default,
    {
        self.inner.with(|c| c.take())
    }
    pub fn replace(&'static self, value: T) -> T {
        self.inner.with(|c| c.replace(value))
    }
}

impl<T: 'static> LocalKey<std::cell::Cell<T>> {
    pub fn set(&'static self, value: T) {
        self.inner.with(|c| c.set(value));
    }
    pub fn get(&'static self) -> T
    where
        T: Copy,
    {
        self.inner.with(|c| c.get())
    }
    pub fn take(&'static self) -> T
    where
        T: Default,
    {
        self.inner.with(|c| c.take())
    }
    pub fn replace(&'static self, value: T) -> T {
        self.inner.with(|c| c.replace(value))
    }
}

/// `std::thread_local!` look-alike (same grammar, including `const { .. }` initialisers).
#[macro_export]
macro_rules! thread_local {
    () => {};
    ($(#[$attr:meta])* $vis:vis static $name:ident: $t:ty = const { $init:expr }; $($rest:tt)*) => (
        $crate::__thread_local_inner!($(#[$attr])* $vis $name, $t, $init);
        $crate::thread_local!($($rest)*);
    );
    ($(#[$attr:meta])* $vis:vis static $name:ident: $t:ty = const { $init:expr }) => (
        $crate::__thread_local_inner!($(#[$attr])* $vis $name, $t, $init);
    );
    ($(#[$attr:meta])* $vis:vis static $name:ident: $t:ty = const $init:block; $($rest:tt)*) => (
        $crate::__thread_local_inner!($(#[$attr])* $vis $name, $t, $init);
        $crate::thread_local!($($rest)*);
    );
    ($(#[$attr:meta])* $vis:vis static $name:ident: $t:ty = $init:expr; $($rest:tt)*) => (
        $crate::__thread_local_inner!($(#[$attr])* $vis $name, $t, $init);
        $crate::thread_local!($($rest)*);
    );
    ($(#[$attr:meta])* $vis:vis static $name:ident: $t:ty = $init:expr) => (
        $crate::__thread_local_inner!($(#[$attr])* $vis $name, $t, $init);
    );
}

#[doc(hidden)]
#[macro_export]
macro_rules! __thread_local_inner {
    ($(#[$attr:meta])* $vis:vis $name:ident, $t:ty, $init:expr) => {
        $(#[$attr])* $vis static $name: $crate::LocalKey<$t> = $crate::LocalKey {
            inner: $crate::__shuttle::thread::LocalKey { init: || { $init }, _p: ::std::marker::PhantomData },
        };
    };
}
