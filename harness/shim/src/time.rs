//! `std::time` look-alike.  By default `Instant::now()` / `SystemTime::now()`
//! read the real clocks.  The harness can switch the calling *process* to a
//! simulated clock (`sim::set`), which then is the only clock rsass can read:
//! it starts where the harness says, advances by a fixed step per reading and
//! can be made to jump.  rsass reads no clock today; the seam is here so that
//! a change which makes output depend on time is exposed by C05 (the same
//! input compiled under two different clocks must give the same bytes).

pub use std::time::{Duration, TryFromFloatSecsError};
use std::ops::{Add, AddAssign, Sub, SubAssign};
use std::sync::atomic::{AtomicBool, AtomicU64, Ordering::Relaxed};
use std::sync::OnceLock;

pub mod sim {
    use super::*;
    pub(super) static ON: AtomicBool = AtomicBool::new(false);
    /// nanoseconds since the (simulated) boot / since the unix epoch
    pub(super) static MONO: AtomicU64 = AtomicU64::new(0);
    pub(super) static WALL: AtomicU64 = AtomicU64::new(0);
    pub(super) static STEP: AtomicU64 = AtomicU64::new(0);
    pub static READS: AtomicU64 = AtomicU64::new(0);

    /// Switch to the simulated clock: monotonic and wall time in ns, and the step added per reading.
    pub fn set(mono_ns: u64, wall_ns: u64, step_ns: u64) {
        MONO.store(mono_ns, Relaxed);
        WALL.store(wall_ns, Relaxed);
        STEP.store(step_ns, Relaxed);
        ON.store(true, Relaxed);
    }
    /// Back to the real clocks.
    pub fn off() {
        ON.store(false, Relaxed);
    }
    /// Jump the wall clock (may go backwards) and advance the monotonic one.
    pub fn jump(mono_forward_ns: u64, wall_ns: u64) {
        MONO.fetch_add(mono_forward_ns, Relaxed);
        WALL.store(wall_ns, Relaxed);
    }
    /// How often rsass read a clock since the process started.
    pub fn reads() -> u64 {
        READS.load(Relaxed)
    }
}

fn real_origin() -> &'static std::time::Instant {
    static ORIGIN: OnceLock<std::time::Instant> = OnceLock::new();
    ORIGIN.get_or_init(std::time::Instant::now)
}

/// Monotonic instant, represented as time since an origin (process start, or simulated boot).
#[derive(Clone, Copy, Debug, PartialEq, Eq, PartialOrd, Ord, Hash)]
pub struct Instant(Duration);

impl Instant {
    pub fn now() -> Instant {
        sim::READS.fetch_add(1, Relaxed);
        if sim::ON.load(Relaxed) {
            let step = sim::STEP.load(Relaxed);
            Instant(Duration::from_nanos(sim::MONO.fetch_add(step, Relaxed)))
        } else {
            Instant(real_origin().elapsed())
        }
    }
    pub fn duration_since(&self, earlier: Instant) -> Duration {
        self.0.saturating_sub(earlier.0)
    }
    pub fn checked_duration_since(&self, earlier: Instant) -> Option<Duration> {
        self.0.checked_sub(earlier.0)
    }
    pub fn saturating_duration_since(&self, earlier: Instant) -> Duration {
        self.0.saturating_sub(earlier.0)
    }
    pub fn elapsed(&self) -> Duration {
        Instant::now().duration_since(*self)
    }
    pub fn checked_add(&self, d: Duration) -> Option<Instant> {
        self.0.checked_add(d).map(Instant)
    }
    pub fn checked_sub(&self, d: Duration) -> Option<Instant> {
        self.0.checked_sub(d).map(Instant)
    }
}
impl Add<Duration> for Instant {
    type Output = Instant;
    fn add(self, d: Duration) -> Instant {
        Instant(self.0 + d)
    }
}
impl AddAssign<Duration> for Instant {
    fn add_assign(&mut self, d: Duration) {
        self.0 += d;
    }
}
impl Sub<Duration> for Instant {
    type Output = Instant;
    fn sub(self, d: Duration) -> Instant {
        Instant(self.0.saturating_sub(d))
    }
}
impl SubAssign<Duration> for Instant {
    fn sub_assign(&mut self, d: Duration) {
        self.0 = self.0.saturating_sub(d);
    }
}
impl Sub<Instant> for Instant {
    type Output = Duration;
    fn sub(self, o: Instant) -> Duration {
        self.duration_since(o)
    }
}

/// Wall-clock time, represented as time since the unix epoch.
#[derive(Clone, Copy, Debug, PartialEq, Eq, PartialOrd, Ord, Hash)]
pub struct SystemTime(Duration);

pub const UNIX_EPOCH: SystemTime = SystemTime(Duration::ZERO);

impl SystemTime {
    pub const UNIX_EPOCH: SystemTime = SystemTime(Duration::ZERO);
    pub fn now() -> SystemTime {
        sim::READS.fetch_add(1, Relaxed);
        if sim::ON.load(Relaxed) {
            let step = sim::STEP.load(Relaxed);
            SystemTime(Duration::from_nanos(sim::WALL.fetch_add(step, Relaxed)))
        } else {
            SystemTime(
                std::time::SystemTime::now()
                    .duration_since(std::time::UNIX_EPOCH)
                    .unwrap_or(Duration::ZERO),
            )
        }
    }
    pub fn duration_since(&self, earlier: SystemTime) -> Result<Duration, SystemTimeError> {
        self.0.checked_sub(earlier.0).ok_or_else(|| SystemTimeError(earlier.0 - self.0))
    }
    pub fn elapsed(&self) -> Result<Duration, SystemTimeError> {
        SystemTime::now().duration_since(*self)
    }
    pub fn checked_add(&self, d: Duration) -> Option<SystemTime> {
        self.0.checked_add(d).map(SystemTime)
    }
    pub fn checked_sub(&self, d: Duration) -> Option<SystemTime> {
        self.0.checked_sub(d).map(SystemTime)
    }
}
impl Add<Duration> for SystemTime {
    type Output = SystemTime;
    fn add(self, d: Duration) -> SystemTime {
        SystemTime(self.0 + d)
    }
}
impl Sub<Duration> for SystemTime {
    type Output = SystemTime;
    fn sub(self, d: Duration) -> SystemTime {
        SystemTime(self.0.saturating_sub(d))
    }
}

/// `std::time::SystemTimeError` look-alike (std's has no public constructor).
#[derive(Clone, Debug)]
pub struct SystemTimeError(Duration);
impl SystemTimeError {
    pub fn duration(&self) -> Duration {
        self.0
    }
}
impl std::fmt::Display for SystemTimeError {
    fn fmt(&self, f: &mut std::fmt::Formatter<'_>) -> std::fmt::Result {
        f.write_str("second time provided was later than self")
    }
}
impl std::error::Error for SystemTimeError {}
