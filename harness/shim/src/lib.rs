//! What the instrumented copy of rsass (tools/instrument.py) uses in place of
//! `std::sync`, `std::thread`, `std::thread_local!` and `std::time`.
//!
//! * without the `shuttle` feature (world A): the std items themselves, so the
//!   instrumented build behaves exactly like the shipped one — except for the
//!   clock, which the harness may replace by a simulated one (`time::sim`);
//! * with the `shuttle` feature (world B): shuttle's models, so that a seeded
//!   scheduler decides every lock acquisition, atomic access, `Once`,
//!   lazy-static initialisation and thread-local access of rsass.
//!
//! This lives outside rsass because rsass forbids `unsafe`.

#[cfg(not(feature = "shuttle"))]
mod plain {
    pub use std::sync::*;
    pub use std::thread_local;
    pub mod thread {
        pub use std::thread::*;
    }
}
#[cfg(not(feature = "shuttle"))]
pub use plain::*;

#[cfg(feature = "shuttle")]
mod sim;
#[cfg(feature = "shuttle")]
pub use sim::*;

pub mod time;
