//! Drop-in replacements for the `std::sync` items rsass uses, routed through
//! shuttle so that a seeded scheduler decides every lock acquisition, every
//! `Once` and every lazy-static initialisation.  Only compiled into rsass
//! under `--cfg kaj_rsass_verif` (see the hook commit in /repo).
//!
//! This lives outside rsass because rsass forbids `unsafe` and the `LazyLock`
//! wrapper needs one lifetime extension (sound because every `LazyLock` in
//! rsass is a `static`).

use std::ops::Deref;

pub use shuttle::sync::Once;
/// shuttle's `Arc` is std's `Arc` (no scheduling points), so use std's directly.
pub use std::sync::Arc;
pub use std::sync::{LockResult, PoisonError};

/// Trace of lock acquisitions, for the interleaving signature.
pub mod trace {
    use std::sync::Mutex as StdMutex;

    #[derive(Clone, Copy, Debug, PartialEq, Eq, Hash, PartialOrd, Ord)]
    pub struct Acq {
        /// shuttle task id (usize::MAX outside shuttle)
        pub task: usize,
        /// identity of the mutex: rank of its first acquisition within the execution
        pub lock: usize,
    }

    static TRACE: StdMutex<Vec<Acq>> = StdMutex::new(Vec::new());
    static ENABLED: std::sync::atomic::AtomicBool = std::sync::atomic::AtomicBool::new(false);
    /// Lock identities are handed out in order of first acquisition within an
    /// execution (addresses are reused by the allocator and differ between
    /// processes, so they cannot serve as identities).
    static NEXT_ID: std::sync::atomic::AtomicUsize = std::sync::atomic::AtomicUsize::new(1);
    static EPOCH: std::sync::atomic::AtomicUsize = std::sync::atomic::AtomicUsize::new(1);

    pub fn enable(on: bool) {
        if on {
            // new execution: identities start again (old mutexes keep stale ids of an older epoch)
            NEXT_ID.store(1, std::sync::atomic::Ordering::Relaxed);
            EPOCH.fetch_add(1, std::sync::atomic::Ordering::Relaxed);
        }
        ENABLED.store(on, std::sync::atomic::Ordering::Relaxed);
    }
    pub(crate) fn enabled() -> bool {
        ENABLED.load(std::sync::atomic::Ordering::Relaxed)
    }
    pub(crate) fn epoch() -> usize {
        EPOCH.load(std::sync::atomic::Ordering::Relaxed)
    }
    pub(crate) fn fresh_id() -> usize {
        NEXT_ID.fetch_add(1, std::sync::atomic::Ordering::Relaxed)
    }
    pub(crate) fn record(lock: usize) {
        if !ENABLED.load(std::sync::atomic::Ordering::Relaxed) {
            return;
        }
        let task = shuttle::current::get_current_task().map_or(usize::MAX, usize::from);
        // never held across a scheduling point
        TRACE.lock().unwrap_or_else(|e| e.into_inner()).push(Acq { task, lock });
    }
    static LAZY: StdMutex<Vec<(usize, usize)>> = StdMutex::new(Vec::new());
    /// A task found a lazy static not yet initialised (in this execution) and goes on to initialise it.
    pub(crate) fn lazy_attempt(lazy: usize) {
        if !enabled() {
            return;
        }
        let task = shuttle::current::get_current_task().map_or(usize::MAX, usize::from);
        LAZY.lock().unwrap_or_else(|e| e.into_inner()).push((lazy, task));
    }
    /// Number of lazy statics whose initialisation was attempted by more than one task.
    pub fn take_contended_lazies() -> usize {
        let v = std::mem::take(&mut *LAZY.lock().unwrap_or_else(|e| e.into_inner()));
        let mut by: std::collections::BTreeMap<usize, Vec<usize>> = std::collections::BTreeMap::new();
        for (l, t) in v {
            let e = by.entry(l).or_default();
            if !e.contains(&t) {
                e.push(t);
            }
        }
        by.values().filter(|t| t.len() > 1).count()
    }
    /// Take the trace recorded since the last call.
    pub fn take() -> Vec<Acq> {
        std::mem::take(&mut *TRACE.lock().unwrap_or_else(|e| e.into_inner()))
    }
}

/// `std::sync::Mutex` look-alike over `shuttle::sync::Mutex`.
#[derive(Debug, Default)]
pub struct Mutex<T: ?Sized> {
    /// (epoch << 32 | id), 0 = not yet acquired
    ident: std::sync::atomic::AtomicUsize,
    inner: shuttle::sync::Mutex<T>,
}

pub type MutexGuard<'a, T> = shuttle::sync::MutexGuard<'a, T>;

impl<T> Mutex<T> {
    pub const fn new(t: T) -> Self {
        Mutex { ident: std::sync::atomic::AtomicUsize::new(0), inner: shuttle::sync::Mutex::new(t) }
    }
}

impl<T: ?Sized> Mutex<T> {
    pub fn lock(&self) -> LockResult<MutexGuard<'_, T>> {
        if trace::enabled() {
            use std::sync::atomic::Ordering::Relaxed;
            let ep = trace::epoch();
            let mut v = self.ident.load(Relaxed);
            if v >> 32 != ep {
                v = (ep << 32) | trace::fresh_id();
                self.ident.store(v, Relaxed);
            }
            trace::record(v & 0xffff_ffff);
        }
        self.inner.lock()
    }
}

/// `std::sync::LazyLock` look-alike over shuttle's lazy static: the value is
/// per shuttle execution (= per simulated process) and the race for who
/// initialises it is part of the schedule.
pub struct LazyLock<T: Sync + 'static> {
    lazy: shuttle::lazy_static::Lazy<T>,
    /// epoch in which a `deref` has completed (only for the contention probe)
    done_epoch: std::sync::atomic::AtomicUsize,
}

impl<T: Sync + 'static> LazyLock<T> {
    pub const fn new(f: fn() -> T) -> Self {
        LazyLock { lazy: shuttle::lazy_static::Lazy::new(f), done_epoch: std::sync::atomic::AtomicUsize::new(0) }
    }
}

impl<T: Sync + 'static> Deref for LazyLock<T> {
    type Target = T;
    fn deref(&self) -> &T {
        // SAFETY: every LazyLock in rsass is a `static` item, so `self` does
        // live for 'static; std's LazyLock::deref has no such bound, hence
        // the extension here.
        let this: &'static Self = unsafe { &*std::ptr::from_ref(self) };
        use std::sync::atomic::Ordering::Relaxed;
        let ep = trace::epoch();
        if this.done_epoch.load(Relaxed) != ep {
            trace::lazy_attempt(std::ptr::from_ref(this).cast::<()>() as usize);
            let v = this.lazy.get();
            this.done_epoch.store(ep, Relaxed);
            return v;
        }
        this.lazy.get()
    }
}
