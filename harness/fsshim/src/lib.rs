//! `std::fs` look-alike for the instrumented copy of rsass (see
//! tools/instrument.py): every `std::fs::` path in rsass' sources is rewritten
//! to `rsass_verif_fs::`, and `.is_file()` / `.exists()` / `.is_dir()` on
//! paths to the `PathExt` methods below.
//!
//! With no backend installed on the calling thread everything passes through
//! to the real file system, so the instrumented build behaves exactly like the
//! shipped one.  With a backend installed (world A, "loader = FsLoader over
//! SimFs"), the real `FsLoader` / `CargoLoader` code of rsass runs against a
//! simulated file system that records every stat/open/read and injects faults.

pub use std::fs::*;

use std::cell::RefCell;
use std::io::{self, Read};
use std::path::Path;
use std::rc::Rc;

/// A simulated file system as seen by the code under test (one per thread).
pub trait Backend {
    /// `stat` + "is a regular file"; errors are indistinguishable from "no" (as in `Path::is_file`).
    fn is_file(&self, path: &Path) -> bool;
    fn is_dir(&self, path: &Path) -> bool;
    fn open(&self, path: &Path) -> io::Result<Opened>;
    /// does the path run through a regular file where it needs a directory (stat gives ENOTDIR)?
    fn blocked_by_file(&self, _path: &Path) -> bool {
        false
    }
}

/// What a simulated `open` hands back: the byte stream and what `fstat` would say about it.
pub struct Opened {
    pub reader: Box<dyn Read>,
    pub is_dir: bool,
    pub len: u64,
}

/// `std::fs::Metadata` look-alike (the few questions code asks about a file it has just opened).
#[derive(Clone, Debug)]
pub enum Metadata {
    Real(std::fs::Metadata),
    Sim { is_dir: bool, len: u64 },
}

impl Metadata {
    pub fn is_file(&self) -> bool {
        match self {
            Metadata::Real(m) => m.is_file(),
            Metadata::Sim { is_dir, .. } => !is_dir,
        }
    }
    pub fn is_dir(&self) -> bool {
        match self {
            Metadata::Real(m) => m.is_dir(),
            Metadata::Sim { is_dir, .. } => *is_dir,
        }
    }
    pub fn is_symlink(&self) -> bool {
        match self {
            Metadata::Real(m) => m.is_symlink(),
            Metadata::Sim { .. } => false,
        }
    }
    #[allow(clippy::len_without_is_empty)]
    pub fn len(&self) -> u64 {
        match self {
            Metadata::Real(m) => m.len(),
            Metadata::Sim { len, .. } => *len,
        }
    }
}

/// `std::fs::metadata` (follows nothing in the simulated tree: there are no symlinks).
pub fn metadata<P: AsRef<Path>>(path: P) -> io::Result<Metadata> {
    match backend() {
        Some(b) => {
            if b.is_file(path.as_ref()) {
                Ok(Metadata::Sim { is_dir: false, len: 0 })
            } else if b.is_dir(path.as_ref()) {
                Ok(Metadata::Sim { is_dir: true, len: 0 })
            } else if b.blocked_by_file(path.as_ref()) {
                Err(io::Error::new(io::ErrorKind::NotADirectory, "Not a directory (simfs)"))
            } else {
                Err(io::Error::new(io::ErrorKind::NotFound, "No such file or directory (simfs)"))
            }
        }
        None => std::fs::metadata(path).map(Metadata::Real),
    }
}

thread_local! {
    static BACKEND: RefCell<Option<Rc<dyn Backend>>> = const { RefCell::new(None) };
}

/// Install (or with `None` remove) the simulated file system of this thread.
pub fn install(b: Option<Rc<dyn Backend>>) -> Option<Rc<dyn Backend>> {
    BACKEND.with(|c| std::mem::replace(&mut *c.borrow_mut(), b))
}

fn backend() -> Option<Rc<dyn Backend>> {
    BACKEND.with(|c| c.borrow().clone())
}

enum Inner {
    Real(std::fs::File),
    /// the stream is shared between clones of the handle, as the file offset of a real descriptor is
    Sim(Rc<RefCell<Box<dyn Read>>>, Metadata),
}

/// `std::fs::File` look-alike (read side only; everything else is the real file).
pub struct File(Inner);

impl std::fmt::Debug for File {
    fn fmt(&self, f: &mut std::fmt::Formatter<'_>) -> std::fmt::Result {
        match &self.0 {
            Inner::Real(r) => r.fmt(f),
            Inner::Sim(..) => f.write_str("File(sim)"),
        }
    }
}

impl File {
    pub fn open<P: AsRef<Path>>(path: P) -> io::Result<File> {
        match backend() {
            Some(b) => b.open(path.as_ref()).map(|o| File(Inner::Sim(Rc::new(RefCell::new(o.reader)), Metadata::Sim { is_dir: o.is_dir, len: o.len }))),
            None => std::fs::File::open(path).map(|f| File(Inner::Real(f))),
        }
    }
    pub fn create<P: AsRef<Path>>(path: P) -> io::Result<File> {
        std::fs::File::create(path).map(|f| File(Inner::Real(f)))
    }
    /// `File::try_clone`: the clone shares the read position with the original.
    pub fn try_clone(&self) -> io::Result<File> {
        match &self.0 {
            Inner::Real(f) => f.try_clone().map(|f| File(Inner::Real(f))),
            Inner::Sim(r, m) => Ok(File(Inner::Sim(r.clone(), m.clone()))),
        }
    }
    /// (what the rewritten `.metadata()` of tools/instrument.py calls)
    pub fn verif_metadata(&self) -> io::Result<Metadata> {
        self.metadata()
    }
    pub fn metadata(&self) -> io::Result<Metadata> {
        match &self.0 {
            Inner::Real(f) => f.metadata().map(Metadata::Real),
            Inner::Sim(_, m) => Ok(m.clone()),
        }
    }
}

impl Read for File {
    fn read(&mut self, buf: &mut [u8]) -> io::Result<usize> {
        match &mut self.0 {
            Inner::Real(f) => f.read(buf),
            Inner::Sim(r, _) => r.borrow_mut().read(buf),
        }
    }
}

impl io::Write for File {
    fn write(&mut self, buf: &[u8]) -> io::Result<usize> {
        match &mut self.0 {
            Inner::Real(f) => f.write(buf),
            Inner::Sim(..) => Err(io::Error::new(io::ErrorKind::Unsupported, "write to a simulated file")),
        }
    }
    fn flush(&mut self) -> io::Result<()> {
        match &mut self.0 {
            Inner::Real(f) => f.flush(),
            Inner::Sim(..) => Ok(()),
        }
    }
}

/// `std::fs::read` through the (possibly simulated) `File`.
pub fn read<P: AsRef<Path>>(path: P) -> io::Result<Vec<u8>> {
    let mut f = File::open(path)?;
    let mut v = Vec::new();
    f.read_to_end(&mut v)?;
    Ok(v)
}

/// `std::fs::read_to_string` through the (possibly simulated) `File`.
pub fn read_to_string<P: AsRef<Path>>(path: P) -> io::Result<String> {
    let mut f = File::open(path)?;
    let mut s = String::new();
    f.read_to_string(&mut s)?;
    Ok(s)
}

/// The path predicates rsass uses, answered by the backend when there is one.
pub trait PathExt {
    fn verif_is_file(&self) -> bool;
    fn verif_is_dir(&self) -> bool;
    fn verif_exists(&self) -> bool;
    /// `Path::metadata` (only meaningful on paths; metadata types answer with themselves)
    fn verif_metadata(&self) -> io::Result<Metadata>;
}

impl PathExt for Metadata {
    fn verif_metadata(&self) -> io::Result<Metadata> {
        Ok(self.clone())
    }
    fn verif_is_file(&self) -> bool {
        self.is_file()
    }
    fn verif_is_dir(&self) -> bool {
        self.is_dir()
    }
    fn verif_exists(&self) -> bool {
        true
    }
}

impl PathExt for std::fs::Metadata {
    fn verif_metadata(&self) -> io::Result<Metadata> {
        Ok(Metadata::Real(self.clone()))
    }
    fn verif_is_file(&self) -> bool {
        self.is_file()
    }
    fn verif_is_dir(&self) -> bool {
        self.is_dir()
    }
    fn verif_exists(&self) -> bool {
        true
    }
}

impl PathExt for std::fs::FileType {
    fn verif_metadata(&self) -> io::Result<Metadata> {
        Err(io::Error::new(io::ErrorKind::Unsupported, "metadata of a file type"))
    }
    fn verif_is_file(&self) -> bool {
        self.is_file()
    }
    fn verif_is_dir(&self) -> bool {
        self.is_dir()
    }
    fn verif_exists(&self) -> bool {
        true
    }
}

impl PathExt for Path {
    fn verif_metadata(&self) -> io::Result<Metadata> {
        metadata(self)
    }
    fn verif_is_file(&self) -> bool {
        match backend() {
            Some(b) => b.is_file(self),
            None => self.is_file(),
        }
    }
    fn verif_is_dir(&self) -> bool {
        match backend() {
            Some(b) => b.is_dir(self),
            None => self.is_dir(),
        }
    }
    fn verif_exists(&self) -> bool {
        match backend() {
            Some(b) => b.is_file(self) || b.is_dir(self),
            None => self.exists(),
        }
    }
}
