//! C05 (schedule part) — compilation is deterministic and isolated under
//! concurrent compilations on other threads, whatever ran earlier in the process.

use crate::exec::*;
use vcommon::pool::{draw_item, lookup_storm, sibling_of, twin_with_other_format};
use serde::{Deserialize, Serialize};
use serde_json::{json, Value as Json};
use std::cell::RefCell;
use std::collections::HashMap;
use vcommon::core::*;
use vcommon::Rng;

pub struct C05;

#[derive(Clone, Serialize, Deserialize)]
pub struct Case {
    pub plan: ExecPlan,
}

thread_local! {
    /// reference results by item digest (per worker process)
    static REFS: RefCell<HashMap<u64, Result<Res, (Res, Res)>>> = RefCell::new(HashMap::new());
}

/// The item compiled alone in a fresh simulated process; computed twice the
/// first time to make sure the reference itself is stable.
pub fn reference_cached(item: &Item, stats: &mut Stats) -> Result<Res, (Res, Res)> {
    let d = item.digest();
    if let Some(r) = REFS.with(|m| m.borrow().get(&d).cloned()) {
        return r;
    }
    let a = reference(item);
    let b = reference(item);
    stats.add("reference_executions", 2);
    let r = if a == b || item.nondet { Ok(a) } else { Err((a, b)) };
    REFS.with(|m| m.borrow_mut().insert(d, r.clone()));
    r
}

fn class(r: &Res) -> &'static str {
    match r {
        Res::Ok(_) => "ok",
        Res::Err(_) => "err",
        Res::Panic(_) => "panic",
    }
}

pub fn judge(plan: &ExecPlan, stats: &mut Stats, use_cache: bool) -> (Vec<(String, String, String)>, ExecResult) {
    let mut fails = vec![];
    // references first (outside the execution under test)
    let mut refs: Vec<Vec<Option<Res>>> = vec![];
    for items in &plan.tasks {
        let mut v = vec![];
        for it in items {
            let r = if use_cache {
                reference_cached(it, stats)
            } else {
                let a = reference(it);
                let b = reference(it);
                if a == b || it.nondet { Ok(a) } else { Err((a, b)) }
            };
            match r {
                Ok(res) => v.push(Some(res)),
                Err((a, b)) => {
                    fails.push((
                        "reference_unstable".to_string(),
                        format!("item={} tasks=1", it.name),
                        format!(
                            "the same input compiled alone in two fresh simulated processes gave {} and {}",
                            a.short(),
                            b.short()
                        ),
                    ));
                    v.push(None);
                }
            }
        }
        refs.push(v);
    }
    let r = execute(plan);
    stats.fold(r.interleaving);
    stats.fold(r.context_switches as u64);
    for (t, items) in plan.tasks.iter().enumerate() {
        for (k, it) in items.iter().enumerate() {
            if !it.nondet {
                stats.fold_str(&format!("{:?}", r.results[t][k]));
            }
        }
    }
    stats.inc("executions");
    stats.add("compilations", plan.tasks.iter().map(|t| t.len() as u64).sum());
    stats.add("scheduler_steps", r.context_switches as u64);
    stats.add("lock_acquisitions", r.acquisitions as u64);
    stats.add("shared_lock_acquisitions", r.shared_acquisitions as u64);
    if r.shared_locks > 0 {
        stats.inc("probe:shared_lock_contended");
    }
    if r.clock_reads > 0 {
        stats.add("probe:clock_reads", r.clock_reads);
    }
    if r.contended_lazies > 0 {
        stats.inc("probe:lazy_init_contended");
    }
    if let Some(f) = &r.failure {
        let kind = if f.contains("deadlock") { "deadlock" } else { "execution_failed" };
        fails.push((
            kind.to_string(),
            format!("tasks={} sched={:?}", plan.tasks.len(), plan.sched),
            format!("the simulated process did not complete: {f}"),
        ));
        return (fails, r);
    }
    for (t, items) in plan.tasks.iter().enumerate() {
        for (k, it) in items.iter().enumerate() {
            let got = r.results[t][k].clone();
            let Some(got) = got else {
                fails.push((
                    "no_result".into(),
                    format!("tasks={}", plan.tasks.len()),
                    format!("task {t} never finished compilation {k} ({})", it.name),
                ));
                continue;
            };
            if matches!(got, Res::Panic(_)) {
                stats.inc("probe:panic_in_task");
            }
            if it.nondet {
                stats.inc("compilations_not_compared_nondet");
                continue;
            }
            let Some(exp) = &refs[t][k] else { continue };
            stats.inc("compilations_compared");
            if &got != exp {
                let poison = match &got {
                    Res::Panic(m) | Res::Err(m) => m.contains("Poison"),
                    Res::Ok(_) => false,
                };
                fails.push((
                    "result_differs_from_isolated_run".into(),
                    format!(
                        "tasks={} position={} ref={} got={} poison={} concurrent={}",
                        plan.tasks.len(),
                        if k == 0 { "first" } else { "later" },
                        class(exp),
                        class(&got),
                        u8::from(poison),
                        u8::from(plan.tasks.len() > 1)
                    ),
                    format!(
                        "compilation {k} of task {t} ({}, {:?}) gave {} but the same input alone in a fresh process gives {}\n--- got:\n{}\n--- expected:\n{}",
                        it.name,
                        it.fmt,
                        got.short(),
                        exp.short(),
                        text_of(&got).chars().take(600).collect::<String>(),
                        text_of(exp).chars().take(600).collect::<String>()
                    ),
                ));
            }
        }
    }
    (fails, r)
}

fn text_of(r: &Res) -> &str {
    match r {
        Res::Ok(s) | Res::Err(s) | Res::Panic(s) => s,
    }
}

pub fn draw_plan(rng: &mut Rng, index: u64, tier: Tier) -> ExecPlan {
    // swarm: sizes, scheduler and loader yielding vary per run
    let big = index % 97 == 96;
    let ntasks = if big {
        if tier == Tier::Thorough { 16 } else { 8 }
    } else {
        *rng.pick(&[1usize, 2, 2, 3, 3, 4])
    };
    let long = index % 89 == 88;
    // storm stratum: every task hammers the process-wide lookup tables with its own keys
    let storm = !big && !long && index % 7 == 3;
    // same-item stratum: all tasks compile ONE item (twice) - they race for whatever it builds lazily
    let same: Option<Item> = if !big && !long && index % 7 == 5 && ntasks > 1 { Some(draw_item(rng)) } else { None };
    let mut tasks = vec![];
    for _ in 0..ntasks {
        if let Some(it) = &same {
            tasks.push(vec![it.clone(), it.clone()]);
            continue;
        }
        if storm {
            tasks.push((0..1 + rng.usize(3)).map(|_| lookup_storm(rng)).collect::<Vec<Item>>());
            continue;
        }
        let h = if long {
            if tier == Tier::Thorough { 50 } else { 20 }
        } else {
            1 + rng.usize(5)
        };
        tasks.push((0..h).map(|_| draw_item(rng)).collect::<Vec<Item>>());
    }
    // flat-file items go, a third of the time, through rsass' own FsLoader - one instance shared by all
    // such compilations of the execution (the reference likewise, alone)
    for items in tasks.iter_mut() {
        for it in items.iter_mut() {
            if it.cwd.is_empty() && !it.files.is_empty() && it.files.keys().all(|k| !k.starts_with('/') && !k.contains("..")) && rng.chance(1, 3) {
                it.via_cwd = true;
            }
        }
    }
    // siblings: another input over the same files, earlier in the same task or in another task
    for t in 0..tasks.len() {
        for k in 0..tasks[t].len() {
            if let Some(sib) = sibling_of(&tasks[t][k], rng) {
                if rng.chance(1, 2) {
                    tasks[t].insert(k, sib);
                } else {
                    let t2 = rng.usize(tasks.len());
                    tasks[t2].insert(0, sib);
                }
                break;
            }
        }
    }
    // twins: some item also appears elsewhere in the plan under another output format
    if rng.chance(1, 2) {
        let (t, k) = (rng.usize(tasks.len()), 0);
        let twin = twin_with_other_format(&tasks[t][k], rng);
        let t2 = rng.usize(tasks.len());
        let pos = rng.usize(tasks[t2].len() + 1);
        tasks[t2].insert(pos, twin);
    }
    ExecPlan {
        sched: match rng.below(4) {
            0 | 1 => Sched::Random,
            2 => Sched::Pct(2),
            _ => Sched::Pct(2 + rng.usize(3)),
        },
        sched_seed: rng.next_u64(),
        fastrand_seed: rng.next_u64(),
        yield_in_loader: rng.chance(1, 2),
        clock: Some(draw_clock(rng)),
        // every eighth plan runs in a pristine process of its own (statics with const initialisers)
        fresh_process: index % 8 == 1,
        tasks,
    }
}

pub fn to_violations(prop: &str, plan: &ExecPlan, fails: Vec<(String, String, String)>, r: &ExecResult) -> Vec<Violation> {
    fails
        .into_iter()
        .map(|(oracle, signature, detail)| {
            let mut cj = serde_json::to_value(Case { plan: plan.clone() }).unwrap();
            cj["interleaving"] = json!(vcommon::hex(r.interleaving));
            cj["scheduler_steps"] = json!(r.context_switches);
            Violation {
                property: prop.into(),
                oracle,
                signature,
                detail,
                case: cj,
                seed: 0,
                index: 0,
                minimised: false,
                shrink_steps: 0,
            }
        })
        .collect()
}

/// Structural shrinks of a plan; each also with a few other scheduler seeds,
/// because a smaller workload usually needs another schedule to fail.
pub fn plan_shrinks(plan: &ExecPlan) -> Vec<ExecPlan> {
    let mut structural = vec![];
    for t in (0..plan.tasks.len()).rev() {
        if plan.tasks.len() > 1 {
            let mut p = plan.clone();
            p.tasks.remove(t);
            structural.push(p);
        }
    }
    for t in 0..plan.tasks.len() {
        for k in (0..plan.tasks[t].len()).rev() {
            if plan.tasks[t].len() > 1 {
                let mut p = plan.clone();
                p.tasks[t].remove(k);
                structural.push(p);
            }
        }
    }
    if plan.yield_in_loader {
        let mut p = plan.clone();
        p.yield_in_loader = false;
        structural.push(p);
    }
    if plan.sched != Sched::Random {
        let mut p = plan.clone();
        p.sched = Sched::Random;
        structural.push(p);
    }
    let mut out = vec![];
    for p in structural {
        out.push(p.clone());
        for k in 1..4u64 {
            let mut q = p.clone();
            q.sched_seed = vcommon::mix(p.sched_seed, k);
            out.push(q);
        }
    }
    out
}

pub fn world_b_extra(stats: &Stats) -> Json {
    json!({
        "logical_steps": stats.c.get("scheduler_steps"),
        "logical_steps_unit": "shuttle context switches (scheduling decisions taken)",
        "simulated_time_note": "rsass has no clock, timer or deadline; time is reported as scheduler steps",
        "executions": stats.c.get("executions"),
        "distinct_interleavings": stats.distinct(),
        "components": {
            "real": ["rsass parser, evaluator, Context, CssData, built-in function modules (instrumented copy made by tools/instrument.py, shims in shuttle mode, --cfg kaj_rsass_verif)", "arc_swap, fastrand (seeded per execution), nom", "every 8th execution: a new OS process of its own (statics with const initialisers in their initial state)"],
            "stub": ["every std::sync / std::thread / thread_local! use inside rsass (Mutex, RwLock, atomics, Once, OnceLock, LazyLock, Condvar, thread-locals) -> shuttle models via the rsass_verif_sync shim; LazyLock/OnceLock values are per execution and never dropped", "OS threads and scheduler -> shuttle tasks under a seeded Random/PCT scheduler", "std::time -> settable clock, drawn per execution", "Loader -> in-memory loader with the spec test-runner's lookup rules, optional sleep(0) scheduling point per lookup"],
            "not_run": ["rsass-cli", "FsLoader / CargoLoader (world A)"],
        },
    })
}

impl Prop for C05 {
    fn id(&self) -> &'static str {
        "C05"
    }
    fn level(&self) -> &'static str {
        "exploration"
    }
    fn runs(&self, tier: Tier) -> u64 {
        match tier {
            Tier::Quick => 4_000,
            Tier::Thorough => 150_000,
        }
    }
    fn run(&self, seed: u64, index: u64, tier: Tier, stats: &mut Stats) -> Vec<Violation> {
        let mut rng = Rng::new(seed);
        let plan = draw_plan(&mut rng, index, tier);
        stats.inc("runs");
        stats.inc(&format!("stratum:tasks={}", plan.tasks.len().min(5)));
        stats.inc(&format!("stratum:sched={:?}", plan.sched));
        let (fails, r) = judge(&plan, stats, true);
        if plan.tasks.len() > 1 && r.shared_locks > 0 {
            stats.nontrivial(r.interleaving);
        }
        stats.sample(3, || {
            json!({
                "seed": vcommon::hex(seed),
                "index": index,
                "scheduler": plan.sched,
                "tasks": plan.tasks.iter().map(|t| t.iter().map(|i| i.name.clone()).collect::<Vec<_>>()).collect::<Vec<_>>(),
                "first_input": plan.tasks[0][0].input.chars().take(400).collect::<String>(),
                "results": r.results.iter().map(|t| t.iter().map(|x| x.as_ref().map_or("none".into(), Res::short)).collect::<Vec<_>>()).collect::<Vec<_>>(),
                "shared_locks": r.shared_locks,
                "shared_lock_acquisitions": r.shared_acquisitions,
                "scheduler_steps": r.context_switches,
                "interleaving_signature": vcommon::hex(r.interleaving),
            })
        });
        to_violations("C05", &plan, fails, &r)
    }
    fn replay(&self, case: &Json, stats: &mut Stats) -> Vec<Violation> {
        let Ok(case) = serde_json::from_value::<Case>(case.clone()) else {
            return vec![];
        };
        let (fails, r) = judge(&case.plan, stats, false);
        to_violations("C05", &case.plan, fails, &r)
    }
    fn shrink_candidates(&self, case: &Json) -> Vec<Json> {
        let Ok(case) = serde_json::from_value::<Case>(case.clone()) else {
            return vec![];
        };
        plan_shrinks(&case.plan).into_iter().map(|p| serde_json::to_value(Case { plan: p }).unwrap()).collect()
    }
    fn evidence_extra(&self, stats: &Stats) -> Json {
        world_b_extra(stats)
    }
    fn abort_needs_fresh_confirmation(&self) -> bool {
        // every execution runs in a forked child of its own (exec::execute), so a worker never
        // carries state of rsass from one execution to the next; a dying WORKER is a harness matter
        true
    }
    fn rule(&self) -> String {
        "One run = one shuttle execution = one simulated process lifetime: 1-4 tasks (8/16 in the large stratum) each compiling 1-5 inputs (20/50 in the long stratum) drawn from probe programs (digest of all seven built-in modules), state-attack programs, module-graph items and the 13 451-case sass-spec corpus, under a seeded Random or PCT(2-4) scheduler with every Mutex/Once/lazy-static operation of rsass a scheduling point (plus optional sleep(0) in loader lookups). Every compilation that does not call random()/unique-id() must equal the result of the same input compiled alone in a fresh simulated process. evaluations = compilations inside executions; non-trivial = an execution with >=2 tasks that contended for at least one lock; distinct = distinct interleaving signatures (order of task switches over acquisitions of locks taken by more than one task).".into()
    }
    fn assumptions(&self) -> Vec<String> {
        vec![
            "only primitives imported through the hooked `use` lines (variablescope.rs, sass/functions/{mod,string,macros}.rs) are under the scheduler; a new std::sync use elsewhere would be invisible to it".into(),
            "shuttle executes sequentially consistent interleavings (no weak memory) and all tasks share one OS thread (std thread_local! state is shared between tasks)".into(),
            "shuttle lazy statics are per execution, so each execution starts with fresh MODULES/FUNCTIONS/CALL_ID like a new process".into(),
        ]
    }
    fn sanity(&self, stats: &Stats, _tier: Tier) -> Vec<String> {
        let mut e = vec![];
        if stats.c.get("runs") >= 500 {
            for p in ["probe:shared_lock_contended", "probe:lazy_init_contended", "compilations_compared"] {
                if stats.c.get(p) == 0 {
                    e.push(format!("{p} stuck at zero"));
                }
            }
        }
        e
    }
}
