//! World B: deterministic simulation of caller threads over rsass' shared
//! state with shuttle (hooked build of rsass).

mod c05;
mod c06;
mod exec;

use vcommon::core::Prop;

fn prop_by_id(id: &str) -> Option<Box<dyn Prop>> {
    match id {
        "C05" => Some(Box::new(c05::C05)),
        "C06" => Some(Box::new(c06::C06)),
        _ => None,
    }
}

fn main() {
    std::env::set_var("SHUTTLE_SILENCE_WARNINGS", "1");
    vcommon::driver::run_main(prop_by_id, 256 << 20, |cmd, _| (cmd == "exec-one").then(exec::cmd_exec_one))
}
