//! C06 — unique-id() is unique (also under concurrent compilations) and
//! random() stays in range.

use crate::c05::{plan_shrinks, to_violations, world_b_extra, Case};
use crate::exec::*;
use serde_json::{json, Value as Json};
use vcommon::core::*;
use vcommon::Rng;

pub struct C06;

use vcommon::ids::{check_output, draw_fastrand_seed, draw_limit, id_program_ordered, IdLedger};

pub fn judge(plan: &ExecPlan, stats: &mut Stats) -> (Vec<(String, String, String)>, ExecResult) {
    let mut fails = vec![];
    let r = execute(plan);
    stats.fold(r.interleaving);
    stats.fold(r.context_switches as u64);
    stats.inc("executions");
    stats.add("compilations", plan.tasks.iter().map(|t| t.len() as u64).sum());
    stats.add("scheduler_steps", r.context_switches as u64);
    stats.add("lock_acquisitions", r.acquisitions as u64);
    stats.add("shared_lock_acquisitions", r.shared_acquisitions as u64);
    if r.shared_locks > 0 {
        stats.inc("probe:shared_lock_contended");
    }
    if r.clock_reads > 0 {
        stats.add("probe:clock_reads", r.clock_reads);
    }
    if r.contended_lazies > 0 {
        stats.inc("probe:lazy_init_contended");
    }
    let sig0 = format!("tasks={} sched={:?}", plan.tasks.len(), plan.sched);
    if let Some(f) = &r.failure {
        fails.push(("execution_failed".to_string(), sig0, format!("the simulated process did not complete: {f}")));
        return (fails, r);
    }
    // every identifier handed out in this process lifetime, with where it was seen
    let mut ledger = IdLedger::default();
    for (t, items) in plan.tasks.iter().enumerate() {
        for (k, it) in items.iter().enumerate() {
            let css = match &r.results[t][k] {
                Some(Res::Ok(css)) => css,
                other => {
                    fails.push((
                        "compile_failed".into(),
                        sig0.clone(),
                        format!("task {t} compilation {k} ({}) did not compile: {}", it.name, other.as_ref().map_or("none".into(), Res::short)),
                    ));
                    continue;
                }
            };
            for (o, s, d) in check_output(&mut ledger, t, k, css, stats) {
                fails.push((o, format!("{sig0} {s}"), d));
            }
        }
    }
    // one class is enough per execution
    fails.dedup_by(|a, b| a.0 == b.0);
    (fails, r)
}

pub fn draw_plan(rng: &mut Rng, index: u64, tier: Tier, stats: &mut Stats) -> ExecPlan {
    let volume = tier == Tier::Thorough && index % 20_000 == 19_999;
    let big = index % 61 == 60;
    let ntasks = if volume {
        4
    } else if big {
        16
    } else {
        *rng.pick(&[1usize, 2, 2, 3, 4])
    };
    let mut tasks = vec![];
    for t in 0..ntasks {
        let h = if volume || big { 1 } else { 1 + rng.usize(3) };
        let mut items = vec![];
        for k in 0..h {
            // every 97th execution has one compilation with some thousand ids (an id whose text is built
            // from two variable-width numbers only collides after many blocks)
            let many = index % 97 == 5 && t == 0 && k == 0;
            let n = if volume { 100_000 } else if many { 6_000 } else { *rng.pick(&[0usize, 1, 2, 3, 5, 10, 50]) };
            let limits: Vec<u64> = (0..rng.usize(6)).map(|_| draw_limit(rng)).collect();
            let mut it = Item::simple(&format!("ids{n}-t{t}-{k}"), &id_program_ordered(n, &limits, rng.chance(1, 2)));
            it.fmt = Fmt { compressed: rng.chance(1, 3), precision: *rng.pick(&[0usize, 5, 10, 20]) };
            it.nondet = true;
            items.push(it);
        }
        tasks.push(items);
    }
    ExecPlan {
        sched: match rng.below(3) {
            0 => Sched::Random,
            1 => Sched::Pct(2),
            _ => Sched::Pct(3),
        },
        sched_seed: rng.next_u64(),
        fastrand_seed: draw_fastrand_seed(rng, stats),
        yield_in_loader: false,
        clock: Some(draw_clock(rng)),
        // every eighth plan runs in a pristine process of its own (statics with const initialisers)
        fresh_process: index % 8 == 1,
        tasks,
    }
}

impl Prop for C06 {
    fn id(&self) -> &'static str {
        "C06"
    }
    fn level(&self) -> &'static str {
        "exploration"
    }
    fn runs(&self, tier: Tier) -> u64 {
        match tier {
            Tier::Quick => 6_000,
            Tier::Thorough => 200_000,
        }
    }
    fn run(&self, seed: u64, index: u64, tier: Tier, stats: &mut Stats) -> Vec<Violation> {
        let mut rng = Rng::new(seed);
        let plan = draw_plan(&mut rng, index, tier, stats);
        stats.inc("runs");
        stats.inc(&format!("stratum:tasks={}", plan.tasks.len().min(5)));
        stats.inc(&format!("stratum:sched={:?}", plan.sched));
        let (fails, r) = judge(&plan, stats);
        if plan.tasks.len() > 1 && r.shared_locks > 0 {
            stats.nontrivial(r.interleaving);
        }
        stats.sample(3, || {
            json!({
                "seed": vcommon::hex(seed),
                "index": index,
                "scheduler": plan.sched,
                "tasks": plan.tasks.iter().map(|t| t.iter().map(|i| i.name.clone()).collect::<Vec<_>>()).collect::<Vec<_>>(),
                "first_input": plan.tasks[0][0].input,
                "first_output": r.results[0][0].as_ref().map(|x| match x { Res::Ok(s) => s.chars().take(500).collect::<String>(), o => o.short() }),
                "shared_lock_acquisitions": r.shared_acquisitions,
                "scheduler_steps": r.context_switches,
                "interleaving_signature": vcommon::hex(r.interleaving),
            })
        });
        to_violations("C06", &plan, fails, &r)
    }
    fn replay(&self, case: &Json, stats: &mut Stats) -> Vec<Violation> {
        let Ok(case) = serde_json::from_value::<Case>(case.clone()) else {
            return vec![];
        };
        let (fails, r) = judge(&case.plan, stats);
        to_violations("C06", &case.plan, fails, &r)
    }
    fn shrink_candidates(&self, case: &Json) -> Vec<Json> {
        let Ok(case) = serde_json::from_value::<Case>(case.clone()) else {
            return vec![];
        };
        plan_shrinks(&case.plan).into_iter().map(|p| serde_json::to_value(Case { plan: p }).unwrap()).collect()
    }
    fn evidence_extra(&self, stats: &Stats) -> Json {
        world_b_extra(stats)
    }
    fn abort_needs_fresh_confirmation(&self) -> bool {
        // every execution runs in a forked child of its own (exec::execute), so a worker never
        // carries state of rsass from one execution to the next; a dying WORKER is a harness matter
        true
    }
    fn rule(&self) -> String {
        "One run = one shuttle execution = one simulated process lifetime: 1-4 tasks (16 in the large stratum; thorough: a volume execution of 4 tasks x 10^5 calls) each compiling 1-3 programs that call unique-id() / string.unique-id() 0-50 times in a loop and math.random() / math.random($limit) / random($limit) with limits drawn log-uniformly from 1..2^53 plus the boundaries 1, 2, 2^53-1, 2^53, under a seeded Random or PCT scheduler with the CALL_ID mutex and its lazy initialisation as scheduling points. Oracles over all outputs of the execution: identifiers pairwise distinct and valid CSS identifiers; floor(random()) prints 0; random($l) prints an integer in [1, $l]. Non-trivial = >=2 tasks contending for a lock; distinct = distinct interleaving signatures.".into()
    }
    fn assumptions(&self) -> Vec<String> {
        vec![
            "random() is observed through math.floor() and random($limit) through its exact integer text, so number formatting (C10) is not part of the oracle".into(),
            "all shuttle tasks share one OS thread, so a per-thread (thread_local!) counter would look process-wide here; the sequential OS-thread history part of this check covers that case".into(),
            "fastrand is seeded per execution; range bugs that need a specific draw are found only if that draw occurs".into(),
        ]
    }
    fn sanity(&self, stats: &Stats, _tier: Tier) -> Vec<String> {
        let mut e = vec![];
        if stats.c.get("runs") >= 500 {
            for p in ["probe:shared_lock_contended", "probe:lazy_init_contended", "ids_checked", "random_unit_checked", "random_limit_checked", "probe:boundary_limit", "probe:random_hit_upper_bound", "probe:random_hit_lower_bound"] {
                if stats.c.get(p) == 0 {
                    e.push(format!("{p} stuck at zero"));
                }
            }
        }
        e
    }
}
