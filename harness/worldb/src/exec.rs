//! One shuttle execution = one simulated process lifetime: T tasks (caller
//! threads) each running a list of compilations against the hooked build of
//! rsass, under a seeded scheduler.

use rsass::input::{Context, LoadError, Loader, SourceFile, SourceName};
use rsass::output::{Format, Style};
use serde::{Deserialize, Serialize};
use shuttle::scheduler::{PctScheduler, RandomScheduler};
use shuttle::{Config, FailurePersistence, MaxSteps, Runner};
use std::collections::BTreeMap;
use std::io::Cursor;
use std::panic::{catch_unwind, AssertUnwindSafe};
use std::sync::{Arc, Mutex as StdMutex};
use vcommon::Digest;

#[derive(Clone, Copy, Debug, PartialEq, Eq, Serialize, Deserialize)]
pub enum Sched {
    Random,
    Pct(usize),
}

pub use vcommon::pool::{Fmt, Item};

pub fn format_of(f: Fmt) -> Format {
    Format {
        style: if f.compressed { Style::Compressed } else { Style::Expanded },
        precision: f.precision,
    }
}

#[derive(Clone, Debug, PartialEq, Serialize, Deserialize)]
pub struct ExecPlan {
    pub sched: Sched,
    pub sched_seed: u64,
    pub fastrand_seed: u64,
    /// add a scheduling point (sleep(0)) inside every loader lookup
    pub yield_in_loader: bool,
    pub tasks: Vec<Vec<Item>>,
    /// the clock of this simulated process: (monotonic ns, wall ns, step per reading); None = reference clock
    #[serde(default)]
    pub clock: Option<(u64, u64, u64)>,
    /// run this execution in a forked child of a worker that has never compiled anything, so that
    /// ALL statics of rsass - also plain ones with const initialisers - are in their initial state
    #[serde(default)]
    pub fresh_process: bool,
}

/// The clock every reference execution runs under.
pub const REF_CLOCK: (u64, u64, u64) = (1_000_000, 1_700_000_000_000_000_000, 1_000);

pub fn draw_clock(rng: &mut vcommon::Rng) -> (u64, u64, u64) {
    let wall = match rng.below(4) {
        0 => 0,
        1 => 1_700_000_000_000_000_000 - rng.below(1 << 50),
        2 => 4_102_444_800_000_000_000 + rng.below(1 << 40),
        _ => rng.below(1 << 62),
    };
    (rng.below(1 << 44), wall, *rng.pick(&[0u64, 1, 1_000, 1_000_000_000, 86_400_000_000_000]))
}

#[derive(Clone, Debug, PartialEq, Eq, Serialize, Deserialize)]
pub enum Res {
    Ok(String),
    Err(String),
    Panic(String),
}

impl Res {
    pub fn short(&self) -> String {
        match self {
            Res::Ok(s) => format!("Ok({} bytes)", s.len()),
            Res::Err(t) => format!("Err({})", t.lines().next().unwrap_or("")),
            Res::Panic(m) => format!("Panic({m})"),
        }
    }
}

#[derive(Clone, Serialize, Deserialize)]
pub struct ExecResult {
    /// results[task][k]
    pub results: Vec<Vec<Option<Res>>>,
    /// the execution itself failed (deadlock, step bound, escaped panic)
    pub failure: Option<String>,
    /// hash of the order in which tasks took shared locks
    pub interleaving: u64,
    pub shared_locks: usize,
    pub shared_acquisitions: usize,
    pub acquisitions: usize,
    pub context_switches: usize,
    /// lazy statics (MODULES, FUNCTIONS, CALL_ID, ...) that more than one task tried to initialise
    pub contended_lazies: usize,
    /// how often rsass read a clock during the execution
    pub clock_reads: u64,
}

/// Loader with the lookup rules of the spec test-runner (cwd + mock table).
#[derive(Clone, Debug)]
struct MemLoader {
    mock: Arc<BTreeMap<String, String>>,
    cwd: String,
    yield_in_loader: bool,
}

fn url_join(p: &str, c: &str) -> String {
    let c = c.trim_start_matches("./").replace("/./", "/");
    if p.is_empty() {
        c
    } else if c.is_empty() {
        p.to_string()
    } else if p.ends_with('/') {
        format!("{p}{c}")
    } else {
        format!("{p}/{c}")
    }
}

impl Loader for MemLoader {
    type File = Cursor<Vec<u8>>;
    fn find_file(&self, name: &str) -> Result<Option<Self::File>, LoadError> {
        if self.yield_in_loader {
            shuttle::thread::sleep(std::time::Duration::ZERO);
        }
        let mut cwd = self.cwd.trim_end_matches('/');
        let mut lname = name;
        while let Some(n) = lname.strip_prefix("../") {
            cwd = cwd.rfind('/').map_or("", |p| &self.cwd[..p]);
            lname = n;
        }
        let tname = url_join(cwd, lname);
        if let Some(d) = self.mock.get(&tname).or_else(|| self.mock.get(lname)) {
            return Ok(Some(Cursor::new(d.as_bytes().to_vec())));
        }
        Ok(None)
    }
}

/// rsass' own `FsLoader`, ONE instance shared by every compilation of the execution that asks for it
/// (`item.via_cwd`), over a file system that exists only in memory: what a loader keeps inside itself
/// is shared state like any other once two threads hold the same loader.
#[derive(Debug)]
struct SharedFs {
    inner: Arc<rsass::input::FsLoader>,
    yield_in_loader: bool,
}

impl Loader for SharedFs {
    type File = <rsass::input::FsLoader as Loader>::File;
    fn find_file(&self, url: &str) -> Result<Option<Self::File>, LoadError> {
        if self.yield_in_loader {
            shuttle::thread::sleep(std::time::Duration::ZERO);
        }
        self.inner.find_file(url)
    }
}

/// The in-memory file system below the shared FsLoader: every item has a directory named by its digest.
struct MapBackend {
    files: BTreeMap<String, Vec<u8>>,
}

fn norm_path(p: &std::path::Path) -> String {
    let mut out: Vec<&str> = vec![];
    for c in p.to_str().unwrap_or("").split('/') {
        match c {
            "" | "." => {}
            ".." => {
                out.pop();
            }
            c => out.push(c),
        }
    }
    out.join("/")
}

impl rsass_verif_fs::Backend for MapBackend {
    fn is_file(&self, path: &std::path::Path) -> bool {
        self.files.contains_key(&norm_path(path))
    }
    fn is_dir(&self, path: &std::path::Path) -> bool {
        let d = format!("{}/", norm_path(path));
        self.files.keys().any(|k| k.starts_with(&d))
    }
    fn open(&self, path: &std::path::Path) -> std::io::Result<rsass_verif_fs::Opened> {
        match self.files.get(&norm_path(path)) {
            Some(d) => Ok(rsass_verif_fs::Opened { reader: Box::new(Cursor::new(d.clone())), is_dir: false, len: d.len() as u64 }),
            None => Err(std::io::Error::new(std::io::ErrorKind::NotFound, "No such file or directory (mapfs)")),
        }
    }
}

pub fn item_dir(item: &Item) -> String {
    format!("i{}", vcommon::hex(item.digest()))
}

pub fn compile(item: &Item, yield_in_loader: bool, shared: &Arc<rsass::input::FsLoader>) -> Res {
    if item.via_cwd {
        let r = catch_unwind(AssertUnwindSafe(|| {
            let loader = SharedFs { inner: shared.clone(), yield_in_loader };
            let file = SourceFile::scss_bytes(item.input.as_bytes().to_vec(), SourceName::root(format!("{}/input.scss", item_dir(item))));
            match Context::for_loader(loader).with_format(format_of(item.fmt)).transform(file) {
                Ok(b) => Res::Ok(String::from_utf8_lossy(&b).into_owned()),
                Err(e) => Res::Err(e.to_string()),
            }
        }));
        return match r {
            Ok(r) => r,
            Err(_) => Res::Panic(vcommon::panichook::last_panic()),
        };
    }
    let r = catch_unwind(AssertUnwindSafe(|| {
        let loader = MemLoader {
            mock: Arc::new(item.files.clone()),
            cwd: item.cwd.clone(),
            yield_in_loader,
        };
        let file = SourceFile::scss_bytes(item.input.as_bytes().to_vec(), SourceName::root("input.scss"));
        match Context::for_loader(loader).with_format(format_of(item.fmt)).transform(file) {
            Ok(b) => Res::Ok(String::from_utf8_lossy(&b).into_owned()),
            Err(e) => Res::Err(e.to_string()),
        }
    }));
    match r {
        Ok(r) => r,
        Err(_) => Res::Panic(vcommon::panichook::last_panic()),
    }
}

/// One execution.  Lazily initialised statics (`LazyLock`, `OnceLock`, `Once`, thread-locals) are
/// per execution anyway (shim); plain `static`s with const initialisers are not, so every eighth
/// plan (`fresh_process`) is run in a new process (this binary re-executed, plan on stdin) -
/// there an initialisation race on such a static exists, and nothing can have leaked in.  Process
/// creation is the scarce resource of this sandbox (§11.5), hence a stratum and not every run.
/// `VERIF_NO_FORK=1` keeps everything in-process (for debuggers).
pub fn execute(plan: &ExecPlan) -> ExecResult {
    if !plan.fresh_process || std::env::var_os("VERIF_NO_FORK").is_some() {
        return execute_here(plan);
    }
    execute_in_new_process(plan)
}

/// One execution in a new process: fork+exec of this binary (`exec-one`: plan on stdin, result on stdout).
fn execute_in_new_process(plan: &ExecPlan) -> ExecResult {
    use std::io::Write;
    use std::os::unix::process::ExitStatusExt;
    let died = |why: String| ExecResult {
        results: plan.tasks.iter().map(|t| vec![None; t.len()]).collect(),
        failure: Some(why),
        interleaving: 0,
        shared_locks: 0,
        shared_acquisitions: 0,
        acquisitions: 0,
        context_switches: 0,
        contended_lazies: 0,
        clock_reads: 0,
    };
    let exe = match std::env::current_exe() {
        Ok(e) => e,
        Err(_) => return execute_here(plan),
    };
    let mut child = match std::process::Command::new(exe)
        .arg("exec-one")
        .stdin(std::process::Stdio::piped())
        .stdout(std::process::Stdio::piped())
        .stderr(std::process::Stdio::null())
        .spawn()
    {
        Ok(c) => c,
        Err(_) => return execute_here(plan),
    };
    if let Some(mut si) = child.stdin.take() {
        let _ = si.write_all(&serde_json::to_vec(plan).unwrap_or_default());
    }
    let out = match child.wait_with_output() {
        Ok(o) => o,
        Err(e) => return died(format!("wait: {e}")),
    };
    if let Some(sig) = out.status.signal() {
        return died(format!("the simulated process died with signal {sig} (stack overflow or abort inside a compilation)"));
    }
    match serde_json::from_slice::<ExecResult>(&out.stdout) {
        Ok(r) => r,
        Err(e) => died(format!("the simulated process ended without a result ({:?}): {e}", out.status)),
    }
}

/// Child side of `execute_in_new_process`.
pub fn cmd_exec_one() -> i32 {
    use std::io::{Read, Write};
    let mut text = String::new();
    let _ = std::io::stdin().read_to_string(&mut text);
    let Ok(mut plan) = serde_json::from_str::<ExecPlan>(&text) else {
        eprintln!("HARNESS-ERROR: exec-one: bad plan");
        return 2;
    };
    plan.fresh_process = false;
    let r = execute_here(&plan);
    let _ = std::io::stdout().write_all(&serde_json::to_vec(&r).unwrap_or_default());
    0
}

fn execute_here(plan: &ExecPlan) -> ExecResult {
    let ntasks = plan.tasks.len();
    let results: Arc<StdMutex<Vec<Vec<Option<Res>>>>> =
        Arc::new(StdMutex::new(plan.tasks.iter().map(|t| vec![None; t.len()]).collect()));
    let switches = Arc::new(StdMutex::new(0usize));
    let mut cfg = Config::new();
    cfg.stack_size = 8 << 20;
    cfg.max_steps = MaxSteps::FailAfter(50_000_000);
    cfg.failure_persistence = FailurePersistence::None;
    cfg.silence_warnings = true;
    let plan2 = plan.clone();
    let res2 = results.clone();
    let sw2 = switches.clone();
    let body = move || {
        fastrand::seed(plan2.fastrand_seed);
        // the in-memory file system and the one FsLoader that the `via_cwd` items of this execution share
        let mut files = BTreeMap::new();
        for it in plan2.tasks.iter().flatten().filter(|it| it.via_cwd) {
            let d = item_dir(it);
            for (p, text) in &it.files {
                files.insert(format!("{d}/{p}"), text.clone().into_bytes());
            }
        }
        let _old = rsass_verif_fs::install(Some(std::rc::Rc::new(MapBackend { files })));
        let shared = Arc::new(rsass::input::FsLoader::for_cwd());
        let mut handles = vec![];
        for (t, items) in plan2.tasks.iter().cloned().enumerate() {
            let res3 = res2.clone();
            let yl = plan2.yield_in_loader;
            let shared = shared.clone();
            handles.push(shuttle::thread::spawn(move || {
                for (k, item) in items.iter().enumerate() {
                    let r = compile(item, yl, &shared);
                    res3.lock().unwrap_or_else(|e| e.into_inner())[t][k] = Some(r);
                }
            }));
        }
        for h in handles {
            let _ = h.join();
        }
        rsass_verif_fs::install(None);
        *sw2.lock().unwrap_or_else(|e| e.into_inner()) = shuttle::current::context_switches();
    };
    rsass_verif_sync::trace::take();
    rsass_verif_sync::trace::take_contended_lazies();
    let (cm, cw, cs) = plan.clock.unwrap_or(REF_CLOCK);
    rsass_verif_sync::time::sim::set(cm, cw, cs);
    let clock_reads0 = rsass_verif_sync::time::sim::reads();
    rsass_verif_sync::trace::enable(true);
    let outcome = catch_unwind(AssertUnwindSafe(|| match plan.sched {
        Sched::Random => {
            Runner::new(RandomScheduler::new_from_seed(plan.sched_seed, 1), cfg).run(body);
        }
        Sched::Pct(d) => {
            Runner::new(PctScheduler::new_from_seed(plan.sched_seed, d, 1), cfg).run(body);
        }
    }));
    rsass_verif_sync::trace::enable(false);
    let trace = rsass_verif_sync::trace::take();
    let contended_lazies = rsass_verif_sync::trace::take_contended_lazies();
    let failure = outcome.err().map(|_| vcommon::panichook::last_panic());

    // interleaving signature: order of task ids over acquisitions of locks
    // that more than one task acquired
    let mut owners: BTreeMap<usize, Vec<usize>> = BTreeMap::new();
    for a in &trace {
        let e = owners.entry(a.lock).or_default();
        if !e.contains(&a.task) {
            e.push(a.task);
        }
    }
    let shared: Vec<usize> = owners.iter().filter(|(_, t)| t.len() > 1).map(|(l, _)| *l).collect();
    let mut d = Digest::new();
    let mut shared_acq = 0usize;
    let mut last = usize::MAX;
    for a in &trace {
        if shared.binary_search(&a.lock).is_ok() {
            shared_acq += 1;
            // run-length: only task switches matter
            if a.task != last {
                d.u64(a.task as u64);
                last = a.task;
            }
        }
    }
    d.u64(ntasks as u64);
    let results = results.lock().unwrap_or_else(|e| e.into_inner()).clone();
    let context_switches = *switches.lock().unwrap_or_else(|e| e.into_inner());
    ExecResult {
        results,
        failure,
        interleaving: d.finish(),
        shared_locks: shared.len(),
        shared_acquisitions: shared_acq,
        acquisitions: trace.len(),
        context_switches,
        contended_lazies,
        clock_reads: rsass_verif_sync::time::sim::reads() - clock_reads0,
    }
}

/// The reference: the item compiled alone in a fresh simulated process.
pub fn reference(item: &Item) -> Res {
    let plan = ExecPlan {
        sched: Sched::Random,
        sched_seed: 0,
        fastrand_seed: 0,
        yield_in_loader: false,
        tasks: vec![vec![item.clone()]],
        clock: None,
        fresh_process: false,
    };
    let r = execute(&plan);
    match (&r.failure, r.results[0][0].clone()) {
        (None, Some(res)) => res,
        (Some(f), _) => Res::Panic(format!("execution failed: {f}")),
        (None, None) => Res::Panic("no result".into()),
    }
}
