use rsass::output::Format;
use std::collections::BTreeMap;
use std::io::Write;
use std::sync::Mutex;

static OUT: Mutex<Option<std::fs::File>> = Mutex::new(None);

pub fn runner() -> TestRunner {
    TestRunner::new()
}

#[derive(Clone)]
pub struct TestRunner {
    format: Format,
    mock: BTreeMap<String, String>,
    cwd: String,
}

fn url_join(p: &str, c: &str) -> String {
    let c = c.trim_start_matches("./").replace("/./", "/");
    if p.is_empty() {
        c
    } else if c.is_empty() {
        p.to_string()
    } else if p.ends_with('/') {
        format!("{p}{c}")
    } else {
        format!("{p}/{c}")
    }
}

fn jstr(s: &str) -> String {
    let mut o = String::from("\"");
    for c in s.chars() {
        match c {
            '"' => o.push_str("\\\""),
            '\\' => o.push_str("\\\\"),
            '\n' => o.push_str("\\n"),
            '\r' => o.push_str("\\r"),
            '\t' => o.push_str("\\t"),
            c if (c as u32) < 0x20 => o.push_str(&format!("\\u{:04x}", c as u32)),
            c => o.push(c),
        }
    }
    o.push('"');
    o
}

impl TestRunner {
    pub fn new() -> TestRunner {
        TestRunner { format: Default::default(), mock: BTreeMap::new(), cwd: String::new() }
    }
    pub fn set_precision(mut self, precision: usize) -> Self {
        self.format = Format { precision, ..self.format };
        self
    }
    pub fn mock_file(mut self, name: &str, content: &str) -> Self {
        self.mock.insert(url_join(&self.cwd, name), content.into());
        self
    }
    #[allow(unused)]
    pub fn has_files(&self) -> bool {
        !self.mock.is_empty()
    }
    pub fn with_cwd(mut self, cwd: &str) -> Self {
        self.cwd = url_join(&self.cwd, cwd);
        self
    }
    fn record(&self, kind: &str, input: &str) {
        let name = std::thread::current().name().unwrap_or("?").to_string();
        let mocks: Vec<String> = self.mock.iter().map(|(k, v)| format!("{}:{}", jstr(k), jstr(v))).collect();
        let line = format!(
            "{{\"test\":{},\"expect\":{},\"cwd\":{},\"precision\":{},\"mock\":{{{}}},\"input\":{}}}\n",
            jstr(&name), jstr(kind), jstr(&self.cwd), self.format.precision, mocks.join(","), jstr(input)
        );
        let mut g = OUT.lock().unwrap();
        if g.is_none() {
            let p = std::env::var("CORPUS_OUT").unwrap_or("/tmp/corp/corpus.jsonl".into());
            *g = Some(std::fs::OpenOptions::new().create(true).append(true).open(p).unwrap());
        }
        g.as_mut().unwrap().write_all(line.as_bytes()).unwrap();
    }
    #[allow(unused)]
    pub fn ok(&self, input: &str) -> String {
        self.record("ok", input);
        String::new()
    }
    #[allow(unused)]
    pub fn err(&self, input: &str) -> String {
        self.record("err", input);
        String::new()
    }
}
