#!/bin/bash
# Build the harness crates offline from files on disk (both profiles).
set -e
cd "$(dirname "$0")"
export CARGO_NET_OFFLINE=true
python3 tools/instrument.py
for c in worlda worldb; do
  (cd harness/$c && cargo build --offline 2>&1 | tail -n 1 && cargo build --offline --release 2>&1 | tail -n 1)
done
V="$PWD"
(cd "${VERIF_REPO:-/repo}" && CARGO_TARGET_DIR="$V/target/cli" cargo build --offline --release -p rsass-cli 2>&1 | tail -n 1) || true
echo setup done
